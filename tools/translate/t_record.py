"""T1/T3 for C15 (record / capture / export): coq/gen/RecordFacts.v

T1 data (rich is never imported; everything is read from the AST):
  CONSOLE_HTML_FORMAT_src   the str.format template of export_html (code points)
  HTML_FG_HEX / HTML_BG_HEX '#rrggbb' of DEFAULT_TERMINAL_THEME fore/background
  HTML_ESCAPE_CHAIN         the chain of single-character str.replace calls of export_html's local
                            `escape`, in application order
  BELL_CODE, CLEAR_HOME, CLEAR_NOHOME, CURSOR_SHOW, CURSOR_HIDE
                            the control strings passed to Console.control by bell/clear/show_cursor
T3 call-site facts (booleans the model of model/Record.v branches on):
  print_crop_pad / log_crop_pad        the `pad=` keyword of split_and_crop_lines in print / log
  simplify_keeps_control               Segment.simplify refuses to merge when the *accumulated*
                                       segment is a control segment (DESIGN D12: absent in 9.10.0)
  render_control_test_first            Console._render_buffer tests `not_terminal and is_control` before `if style:`
                                       (so a styled control segment is dropped on a non-terminal too); false =
                                       rich 9.10.0 as found, where the test only guarded the unstyled branch
  href_is_escaped                      export_html passes style.link through an escaping call before
                                       putting it into href="..." (absent in 9.10.0)
Everything else at these sites must have the expected shape (fail closed).
"""
import ast, sys

_m = sys.modules.get("__main__")
_run = _m if hasattr(_m, "GENERATORS") and hasattr(_m, "generator") else __import__("run")
generator, parse, find_class, find_func = _run.generator, _run.parse, _run.find_class, _run.find_func
find_assign, Untranslatable, HEADER, strlit, literal = (_run.find_assign, _run.Untranslatable, _run.HEADER,
                                                        _run.strlit, _run.literal)


def _const_str(node, what):
    if isinstance(node, ast.Constant) and isinstance(node.value, str):
        return node.value
    raise Untranslatable(f"{what}: not a string constant")


def _control_calls(fn):
    """all  self.control(<arg>)  calls in a method"""
    out = []
    for n in ast.walk(fn):
        if (isinstance(n, ast.Call) and isinstance(n.func, ast.Attribute) and n.func.attr == "control"
                and isinstance(n.func.value, ast.Name) and n.func.value.id == "self"):
            if len(n.args) != 1 or n.keywords:
                raise Untranslatable(f"{fn.name}: control() call with unexpected arguments")
            out.append(n.args[0])
    return out


def _ifexp(node, testname, what):
    if not (isinstance(node, ast.IfExp) and isinstance(node.test, ast.Name) and node.test.id == testname):
        raise Untranslatable(f"{what}: expected  A if {testname} else B")
    return _const_str(node.body, what), _const_str(node.orelse, what)


def _sac_pad(fn):
    calls = [n for n in ast.walk(fn) if isinstance(n, ast.Call) and isinstance(n.func, ast.Attribute)
             and n.func.attr == "split_and_crop_lines"]
    if len(calls) != 1:
        raise Untranslatable(f"{fn.name}: expected exactly one split_and_crop_lines call, found {len(calls)}")
    c = calls[0]
    if len(c.args) != 2 or ast.unparse(c.args[1]) != "self.width":
        raise Untranslatable(f"{fn.name}: split_and_crop_lines(new_segments, self.width, ...) expected")
    kws = {k.arg: k.value for k in c.keywords}
    if set(kws) - {"pad"}:
        raise Untranslatable(f"{fn.name}: unexpected keywords {sorted(kws)} at split_and_crop_lines")
    if "pad" not in kws:
        return True
    v = kws["pad"]
    if not (isinstance(v, ast.Constant) and isinstance(v.value, bool)):
        raise Untranslatable(f"{fn.name}: pad= is not a boolean constant")
    return v.value


def _b(x):
    return "true" if x else "false"


@generator("RecordFacts.v")
def gen_record_facts(repo):
    tree, _ = parse(repo, "rich/console.py")
    out = [HEADER]
    fmt = _const_str(find_assign(tree, "CONSOLE_HTML_FORMAT"), "CONSOLE_HTML_FORMAT")
    out.append(f"Definition CONSOLE_HTML_FORMAT_src : list Z :=\n  {strlit(fmt)}.\n\n")
    # theme colours
    ttree, _ = parse(repo, "rich/terminal_theme.py")
    node = find_assign(ttree, "DEFAULT_TERMINAL_THEME")
    if not (isinstance(node, ast.Call) and len(node.args) >= 2):
        raise Untranslatable("DEFAULT_TERMINAL_THEME is not TerminalTheme(bg, fg, ...)")
    bg = literal(node.args[0], "theme background")
    fg = literal(node.args[1], "theme foreground")
    for t in (bg, fg):
        if not (isinstance(t, tuple) and len(t) == 3 and all(type(x) is int and 0 <= x <= 255 for x in t)):
            raise Untranslatable("theme colour is not a byte triple")
    out.append(f"Definition HTML_FG_HEX : list Z := {strlit('#%02x%02x%02x' % fg)}.\n")
    out.append(f"Definition HTML_BG_HEX : list Z := {strlit('#%02x%02x%02x' % bg)}.\n\n")
    console = find_class(tree, "Console")
    # escape chain of export_html
    eh = find_func(console.body, "export_html")
    esc = find_func(eh.body, "escape")
    rets = [s for s in esc.body if isinstance(s, ast.Return)]
    if len(rets) != 1:
        raise Untranslatable("export_html.escape: expected one return")
    chain = []
    node = rets[0].value
    while isinstance(node, ast.Call):
        if not (isinstance(node.func, ast.Attribute) and node.func.attr == "replace" and len(node.args) == 2
                and not node.keywords):
            raise Untranslatable("export_html.escape: not a chain of .replace(a, b)")
        old, new = _const_str(node.args[0], "escape"), _const_str(node.args[1], "escape")
        if len(old) != 1:
            raise Untranslatable("export_html.escape: replaces a multi-character string")
        chain.append((old, new))
        node = node.func.value
    if not (isinstance(node, ast.Name) and node.id == "text"):
        raise Untranslatable("export_html.escape: chain does not start at `text`")
    chain.reverse()
    out.append("Definition HTML_ESCAPE_CHAIN : list (Z * list Z) :=\n  ["
               + "; ".join(f"({ord(o)}, {strlit(n)})" for o, n in chain) + "].\n\n")
    # href: is style.link passed through a call before being formatted into href="..."?
    src = ast.unparse(eh)
    hrefs = [n for n in ast.walk(eh) if isinstance(n, ast.JoinedStr)
             and any(isinstance(v, ast.Constant) and "href=" in str(v.value) for v in n.values)]
    if len(hrefs) != 2:
        raise Untranslatable(f"export_html: expected two href f-strings, found {len(hrefs)}")
    escaped = []
    for js in hrefs:
        fv = [v for v in js.values if isinstance(v, ast.FormattedValue)]
        if len(fv) != 2:
            raise Untranslatable("export_html: href f-string has an unexpected shape")
        first = ast.unparse(fv[0].value)
        if first == "style.link":
            escaped.append(False)
        elif first in ("link", "href", "escape_attr(style.link)", "escape_href(style.link)"):
            escaped.append(True)
        else:
            raise Untranslatable(f"export_html: href value is {first!r}")
    if escaped[0] != escaped[1]:
        raise Untranslatable("export_html: the two href sites differ")
    if escaped[0] and "&quot;" not in src:
        raise Untranslatable("export_html: href is transformed but '\"' is not replaced by &quot;")
    out.append(f"Definition href_is_escaped : bool := {_b(escaped[0])}.\n")
    # control strings
    (bell,) = _control_calls(find_func(console.body, "bell")) or [None]
    out.append(f"Definition BELL_CODE : list Z := {strlit(_const_str(bell, 'bell'))}.\n")
    cl = _control_calls(find_func(console.body, "clear"))
    if len(cl) != 1:
        raise Untranslatable("clear: expected one control() call")
    a, b = _ifexp(cl[0], "home", "clear")
    out.append(f"Definition CLEAR_HOME : list Z := {strlit(a)}.\nDefinition CLEAR_NOHOME : list Z := {strlit(b)}.\n")
    sc_fn = find_func(console.body, "show_cursor")
    sc = _control_calls(sc_fn)
    if len(sc) != 1:
        raise Untranslatable("show_cursor: expected one control() call")
    a, b = _ifexp(sc[0], "show", "show_cursor")
    out.append(f"Definition CURSOR_SHOW : list Z := {strlit(a)}.\nDefinition CURSOR_HIDE : list Z := {strlit(b)}.\n")
    guards = [s for s in sc_fn.body if isinstance(s, ast.If)]
    if len(guards) != 1 or ast.unparse(guards[0].test) != "self.is_terminal and (not self.legacy_windows)":
        raise Untranslatable("show_cursor: guard is not `self.is_terminal and not self.legacy_windows`")
    # crop call sites
    out.append(f"Definition print_crop_pad : bool := {_b(_sac_pad(find_func(console.body, 'print')))}.\n")
    out.append(f"Definition log_crop_pad : bool := {_b(_sac_pad(find_func(console.body, 'log')))}.\n")
    # Segment.simplify merge condition
    stree, _ = parse(repo, "rich/segment.py")
    simp = find_func(find_class(stree, "Segment").body, "simplify")
    ifs = [n for n in ast.walk(simp) if isinstance(n, ast.If)]
    if len(ifs) != 1:
        raise Untranslatable("Segment.simplify: expected one if")
    test = ifs[0].test
    if not isinstance(test, ast.BoolOp) or not isinstance(test.op, ast.And):
        raise Untranslatable("Segment.simplify: merge condition is not a conjunction")
    parts = sorted(ast.unparse(v) for v in test.values)
    base = sorted(["last_segment.style == segment.style", "not segment.is_control"])
    if parts == base:
        keeps = False
    elif parts == sorted(base + ["not last_segment.is_control"]):
        keeps = True
    else:
        raise Untranslatable(f"Segment.simplify: merge condition is {parts}")
    out.append(f"Definition simplify_keeps_control : bool := {_b(keeps)}.\n")
    # Console._render_buffer: order of the control test and the style test in the loop
    rb = find_func(console.body, "_render_buffer")
    loops = [n for n in rb.body if isinstance(n, ast.For)]
    if len(loops) != 1 or ast.unparse(loops[0].target) != "(text, style, is_control)":
        raise Untranslatable("_render_buffer: expected one  for text, style, is_control in buffer  loop")
    body = loops[0].body
    ctl_test = "not_terminal and is_control"
    if "not_terminal = not self.is_terminal" not in ast.unparse(rb):
        raise Untranslatable("_render_buffer: not_terminal is not `not self.is_terminal`")

    def _is_styled_append(stmts):
        return (len(stmts) == 1 and "style.render(text, color_system=color_system, legacy_windows=legacy_windows)"
                in ast.unparse(stmts[0]) and ast.unparse(stmts[0]).startswith("append("))

    def _is_plain_append(stmts):
        return len(stmts) == 1 and ast.unparse(stmts[0]) == "append(text)"
    first = None
    if (len(body) == 1 and isinstance(body[0], ast.If) and ast.unparse(body[0].test) == "style"
            and _is_styled_append(body[0].body) and len(body[0].orelse) == 1 and isinstance(body[0].orelse[0], ast.If)
            and ast.unparse(body[0].orelse[0].test) == f"not ({ctl_test})"
            and _is_plain_append(body[0].orelse[0].body) and not body[0].orelse[0].orelse):
        first = False
    elif (len(body) == 2 and isinstance(body[0], ast.If) and ast.unparse(body[0].test) == ctl_test
          and len(body[0].body) == 1 and isinstance(body[0].body[0], ast.Continue) and not body[0].orelse
          and isinstance(body[1], ast.If) and ast.unparse(body[1].test) == "style"
          and _is_styled_append(body[1].body) and _is_plain_append(body[1].orelse)):
        first = True
    if first is None:
        raise Untranslatable("_render_buffer: loop body has neither of the two known shapes")
    out.append(f"Definition render_control_test_first : bool := {_b(first)}.\n")
    return "".join(out)
