"""Tie 1 for the colour layer (C18; reused by C06/C03/C14): palettes, colour names, enum values,
the RE_COLOR pattern source, and the interpreter's Unicode classes that Color.parse depends on
(`\\s`, `\\d`, str.strip, int(), str.lower).  rich is never imported; the Unicode classes come from
the running interpreter (they are a property of CPython, not of rich)."""
import ast, re, sys, unicodedata

# run.py is normally executed as __main__: register with *that* module's GENERATORS, not a second copy
_m = sys.modules.get("__main__")
_run = _m if hasattr(_m, "GENERATORS") and hasattr(_m, "generator") else __import__("run")
generator, parse, find_assign, find_class = _run.generator, _run.parse, _run.find_assign, _run.find_class
literal, Untranslatable, HEADER, zlit, strlit = _run.literal, _run.Untranslatable, _run.HEADER, _run.zlit, _run.strlit


def _palette_literal(tree, name):
    node = find_assign(tree, name)
    if not (isinstance(node, ast.Call) and isinstance(node.func, ast.Name) and node.func.id == "Palette"
            and len(node.args) == 1 and not node.keywords):
        raise Untranslatable(f"{name} is not Palette([...])")
    rows = literal(node.args[0], name)
    return _check_rows(rows, name)


def _check_rows(rows, name):
    if not isinstance(rows, list):
        raise Untranslatable(f"{name}: not a list")
    for row in rows:
        if not (isinstance(row, tuple) and len(row) == 3 and all(type(x) is int for x in row)):
            raise Untranslatable(f"{name}: row {row!r} is not an int triple")
    return rows


def _rows(rows):
    return "[" + ";\n   ".join("(%s, %s, %s)" % tuple(zlit(x) for x in r) for r in rows) + "]"


@generator("Palettes.v")
def gen_palettes(repo):
    tree, _ = parse(repo, "rich/_palettes.py")
    out = [HEADER]
    for name in ("STANDARD_PALETTE", "EIGHT_BIT_PALETTE", "WINDOWS_PALETTE"):
        rows = _palette_literal(tree, name)
        out.append(f"Definition {name} : list (Z * Z * Z) :=\n  {_rows(rows)}.\n\n")
    # DEFAULT_TERMINAL_THEME = TerminalTheme(background, foreground, normal, bright)
    ttree, _ = parse(repo, "rich/terminal_theme.py")
    node = find_assign(ttree, "DEFAULT_TERMINAL_THEME")
    if not (isinstance(node, ast.Call) and isinstance(node.func, ast.Name) and node.func.id == "TerminalTheme"
            and len(node.args) == 4 and not node.keywords):
        raise Untranslatable("DEFAULT_TERMINAL_THEME is not TerminalTheme(bg, fg, normal, bright)")
    bg, fg, normal, bright = (literal(a, "DEFAULT_TERMINAL_THEME") for a in node.args)
    _check_rows([bg, fg], "theme bg/fg")
    ansi = _check_rows(normal, "theme normal") + _check_rows(bright or normal, "theme bright")
    # the constructor must still be  Palette(normal + (bright or normal))
    cls = find_class(ttree, "TerminalTheme")
    src = ast.unparse(cls)
    if "self.ansi_colors = Palette(normal + (bright or normal))" not in src:
        raise Untranslatable("TerminalTheme.__init__ no longer builds ansi_colors as normal + (bright or normal)")
    out.append(f"Definition DEFAULT_THEME_BACKGROUND : Z * Z * Z := ({bg[0]}, {bg[1]}, {bg[2]}).\n")
    out.append(f"Definition DEFAULT_THEME_FOREGROUND : Z * Z * Z := ({fg[0]}, {fg[1]}, {fg[2]}).\n")
    out.append(f"Definition DEFAULT_THEME_ANSI : list (Z * Z * Z) :=\n  {_rows(ansi)}.\n")
    return "".join(out)


def _enum_values(tree, cname):
    cls = find_class(tree, cname)
    if not (len(cls.bases) == 1 and isinstance(cls.bases[0], ast.Name) and cls.bases[0].id == "IntEnum"):
        raise Untranslatable(f"{cname} is not an IntEnum")
    vals = []
    for node in cls.body:
        if isinstance(node, ast.Assign) and len(node.targets) == 1 and isinstance(node.targets[0], ast.Name):
            v = literal(node.value, cname)
            if type(v) is not int:
                raise Untranslatable(f"{cname}.{node.targets[0].id} is not an int")
            vals.append((node.targets[0].id, v))
        elif isinstance(node, ast.Expr) and isinstance(node.value, ast.Constant):
            continue  # docstring
        else:
            raise Untranslatable(f"{cname}: unexpected member {type(node).__name__}")
    return vals


@generator("ColorNames.v")
def gen_color_names(repo):
    tree, src = parse(repo, "rich/color.py")
    node = find_assign(tree, "ANSI_COLOR_NAMES")
    if not isinstance(node, ast.Dict):
        raise Untranslatable("ANSI_COLOR_NAMES is not a dict literal")
    names = literal(node, "ANSI_COLOR_NAMES")   # dict semantics: a repeated key keeps its last value
    rows = []
    for k, v in names.items():
        if not (isinstance(k, str) and type(v) is int):
            raise Untranslatable(f"ANSI_COLOR_NAMES[{k!r}] = {v!r}")
        rows.append(f"({strlit(k)}, {zlit(v)})")
    out = [HEADER, "Definition ANSI_COLOR_NAMES : list (list Z * Z) :=\n  [" + ";\n   ".join(rows) + "].\n\n"]
    for cname in ("ColorSystem", "ColorType"):
        vals = _enum_values(tree, cname)
        out.append(f"Definition {cname}_values : list (list Z * Z) :=\n  ["
                   + "; ".join(f"({strlit(n)}, {zlit(v)})" for n, v in vals) + "].\n")
    return "".join(out)


def _ranges(cps):
    out = []
    for c in cps:
        if out and out[-1][1] == c - 1:
            out[-1][1] = c
        else:
            out.append([c, c])
    return out


@generator("ColorRegex.v")
def gen_color_regex(repo):
    tree, src = parse(repo, "rich/color.py")
    node = find_assign(tree, "RE_COLOR")
    if not (isinstance(node, ast.Call) and ast.unparse(node.func) == "re.compile" and len(node.args) == 2
            and not node.keywords):
        raise Untranslatable("RE_COLOR is not re.compile(pattern, flags)")
    pat = literal(node.args[0], "RE_COLOR pattern")
    flags = ast.unparse(node.args[1])
    if not isinstance(pat, str):
        raise Untranslatable("RE_COLOR pattern is not a str")
    out = [HEADER]
    out.append(f"(* {flags} *)\nDefinition RE_COLOR_src : list Z :=\n  {strlit(pat)}.\n")
    out.append(f"Definition RE_COLOR_flags : list Z := {strlit(flags)}.\n\n")
    # --- interpreter facts (CPython {sys.version_info}) used by  \s \d str.strip int() str.lower
    cps = [c for c in range(0x110000) if not (0xD800 <= c < 0xE000)]
    allstr = "".join(map(chr, cps))
    spaces = [c for c in cps if chr(c).isspace()]
    if spaces != sorted(map(ord, re.findall(r"\s", allstr))):
        raise Untranslatable(r"str.isspace and re \s disagree")
    category = unicodedata.category
    digits = [c for c in cps if category(chr(c)) == "Nd"]
    if digits != sorted(map(ord, re.findall(r"\d", allstr))):
        raise Untranslatable(r"category Nd and re \d disagree")
    zeros = [c for c in digits if unicodedata.decimal(chr(c)) == 0]
    if sorted(z + i for z in zeros for i in range(10)) != digits or not all(
            unicodedata.decimal(chr(z + i)) == i and int(chr(z + i)) == i for z in zeros for i in range(10)):
        raise Untranslatable("decimal digits are not runs of ten starting at a zero")

    # int() strips: ASCII C-locale whitespace, and non-ASCII Unicode whitespace
    def int_strips(c):
        try:
            return int(chr(c) + "7" + chr(c)) == 7
        except ValueError:
            return False
    int_spaces = [c for c in spaces if int_strips(c)]
    if [c for c in range(256) if c not in set(spaces) and int_strips(c)]:
        raise Untranslatable("int() strips a character that is not str.isspace")
    # str.lower: which characters can land inside the alphabet of a parsable colour?
    okset = set(range(128)) | set(digits) | set(spaces)
    low_all = [chr(c).lower() for c in cps]
    lower_in = []
    for c, low in zip(cps, low_all):
        if c < 128:
            exp = chr(c + 32) if 65 <= c <= 90 else chr(c)
            if low != exp:
                raise Untranslatable(f"ASCII lower of {c}")
        elif low != chr(c):
            if c in okset:
                raise Untranslatable(f"lower changes digit/space {c}")
            if all(ord(x) in okset for x in low):
                lower_in.append((c, low))
    try:
        maxd = sys.get_int_max_str_digits()
    except AttributeError:
        maxd = 0
    out.append("(* facts about the running interpreter, not about rich *)\n")
    out.append("Definition UNI_SPACES : list Z :=\n  [" + "; ".join(map(str, spaces)) + "].\n")
    out.append("Definition INT_SPACES : list Z :=\n  [" + "; ".join(map(str, int_spaces)) + "].\n")
    out.append("Definition UNI_DIGIT_ZEROS : list Z :=\n  [" + "; ".join(map(str, zeros)) + "].\n")
    out.append("(* non-ASCII characters whose lower() consists only of ASCII / digits / spaces *)\n")
    out.append("Definition LOWER_INTO_PARSABLE : list (Z * list Z) :=\n  ["
               + "; ".join(f"({c}, {strlit(l)})" for c, l in lower_in) + "].\n")
    out.append(f"Definition INT_MAX_STR_DIGITS : Z := {maxd}.\n")
    return "".join(out)
