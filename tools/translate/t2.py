"""T2: statement-level translator of small pure Python functions to Gallina (DESIGN section 4).

A plain syntax-directed printer over Python's `ast` (rich is never imported).  Fail closed: any
node outside the subset raises `Untranslatable` for the whole function.  No optimisation: every
Python construct maps to one Gallina operator or to one definition of coq/model/T2Lib.v.

Shape of the output
  * values: int -> Z, bool -> bool, str -> list Z (code points), a 1-character str declared `char`
    -> Z, list -> list, tuple -> (left-nested) product, Optional -> option, opaque object -> unit;
  * an expression that can raise (`l[i]`, `round(a / b)`, `max(seq)`, `x.pop()`, a call of a
    function that can raise) is bound first with `do t <- ...;` in evaluation order, so a function
    is in the `res` monad exactly when something in it can raise (purity is inferred bottom-up);
  * assignment -> `let` (shadowing); `if` without exits -> a join on the tuple of assigned locals,
    with exits -> the rest of the block is pushed into the branches that fall through;
  * `for` -> `fold_left` / `foldM` over the tuple of locals assigned in the body and live before it;
    with `break/continue/return` -> `for_ctl` whose body answers `LNext/LBreak/LReturn`;
  * `while` -> `while_loop fuel`, the function gets a leading `fuel : nat`;
  * `a > b` is printed `b <? a` (both operands are already values, so the order is immaterial).
Round 2 (see notes/T2.md): declared attributes of `self` and of opaque parameters (`options.max_width`)
are leading arguments and can be narrowed (`assert self.number is not None`); IntEnum members are
integer constants read from the class body; `Tuple[T, ...]` is a list; `str(int)` / f-strings of ints
-> `py_str_int`; NamedTuple constructors with defaults, `cls(...)`, `_Segment = Segment`; properties
of NamedTuple values; methods of opaque objects as function arguments (`console.get_style`); floats
as exact rationals (`/` -> `py_qdiv`, Qmin/Qmax/Qceiling); generators (`yield`, `yield from`) as the
list of what they yield; an object built by `self.__new__(C)` + attribute stores as the tuple of its
declared attributes; abstract always-truthy object types as `(C : Type)` binders; `x is None or c(x)`,
`if not opt:`; `return NotImplemented` in a binary dunder -> `Crash K_TypeError`.
"""
import ast

KEYWORDS = {"end", "at", "in", "as", "fix", "fun", "if", "let", "match", "return", "then", "else", "with",
            "for", "using", "where", "forall", "exists", "Type", "Prop", "Set", "mod", "do", "cofix", "struct",
            "fuel", "Ok", "Doc", "Crash", "None", "Some", "nil", "cons", "pair", "tt", "true", "false", "O", "S",
            "I", "L", "fst", "snd", "length", "rev", "map", "filter", "combine", "concat", "repeat", "bind",
            "Z", "nat", "bool", "list", "option", "unit", "res", "negb", "sumZ", "zlen", "nonempty", "existsb",
            "forallb", "fold_left", "foldM", "for_ctl", "while_loop", "mapM", "lctl", "LNext", "LBreak", "LReturn",
            "py_round_div", "py_ceil_div", "py_trunc_div", "py_floordiv", "py_mod", "py_idx", "py_pop",
            "py_append_last", "py_append_at", "py_mul_list", "py_slice", "py_max_list", "py_min_list", "py_range", "py_enumerate",
            "py_unpack2", "py_unpack3", "py_unpack4", "CELL_WIDTHS", "py_str_int", "py_qdiv", "qltb", "q_zero",
            "Q", "Qmake", "Qplus", "Qminus", "Qmult", "Qdiv", "Qopp", "Qmin", "Qmax", "Qceiling", "Qle_bool", "Qeq_bool", "inject_Z",
            # constructors in scope (a binder with such a name would be read as a pattern)
            "left", "right", "inl", "inr", "inleft", "inright", "exist", "existT", "conj", "eq_refl", "xH", "xI", "xO",
            "Z0", "Zpos", "Zneg", "N0", "Npos", "Eq", "Lt", "Gt", "Ascii", "String", "EmptyString", "or_introl",
            "or_intror", "ex_intro", "le_n", "le_S", "ReflectT", "ReflectF", "Build_res", "E", "K"}

CRASH = {"ValueError": "K_ValueError", "ZeroDivisionError": "K_ZeroDivisionError", "IndexError": "K_IndexError",
         "StopIteration": "K_StopIteration", "AssertionError": "K_AssertionError", "TypeError": "K_TypeError",
         "KeyError": "K_KeyError", "AttributeError": "K_AttributeError"}
DOC = {"ColorParseError": "E_ColorParseError", "StyleSyntaxError": "E_StyleSyntaxError",
       "MarkupError": "E_MarkupError", "MissingStyle": "E_MissingStyle",
       "ThemeStackError": "E_ThemeStackError", "NotRenderableError": "E_NotRenderableError"}


class Untranslatable(Exception):
    pass


def fail(node, why):
    line = getattr(node, "lineno", "?")
    raise Untranslatable(f"line {line}: {type(node).__name__}: {why}")


# ------------------------------------------------------------------ types
INT, BOOL, CHAR, OBJ, NONE, TOK = ("int",), ("bool",), ("char",), ("obj",), ("none",), ("tok",)
FLOAT = ("float",)      # a Python float read as an exact rational (Q)
POISON = ("poison",)


class TVar:
    def __init__(self):
        self.ref = None


def TList(t):
    return ("list", t)


STR = TList(CHAR)


def resolve(t):
    while isinstance(t, TVar) and t.ref is not None:
        t = t.ref
    return t


def unify(a, b, node=None):
    a, b = resolve(a), resolve(b)
    if a is None:
        return b
    if b is None:
        return a
    if isinstance(a, TVar):
        if a is not b:
            a.ref = b
        return b
    if isinstance(b, TVar):
        b.ref = a
        return a
    if a == NONE and b[0] == "opt":
        return b
    if b == NONE and a[0] == "opt":
        return a
    if a[0] != b[0]:
        fail(node, f"type mismatch {show(a)} / {show(b)}")
    if a[0] == "list":
        return TList(unify(a[1], b[1], node))
    if a[0] == "opt":
        return ("opt", unify(a[1], b[1], node))
    if a[0] == "tuple":
        if len(a[1]) != len(b[1]):
            fail(node, "tuple arity mismatch")
        return ("tuple", tuple(unify(x, y, node) for x, y in zip(a[1], b[1])))
    return a


def show(t):
    t = resolve(t)
    if isinstance(t, TVar):
        return "?"
    if t[0] in ("list", "opt"):
        return f"{t[0]}[{show(t[1])}]"
    if t[0] == "tuple":
        return "(" + ",".join(show(x) for x in t[1]) + ")"
    return t[0]


def gal(t, node=None):
    t = resolve(t)
    if isinstance(t, TVar):
        fail(node, "element type of a list could not be inferred")
    k = t[0]
    if k in ("int", "char", "tok"):
        return "Z"
    if k == "bool":
        return "bool"
    if k == "float":
        return "Q"
    if k == "abs":
        return t[1]
    if k == "obj":
        return "unit"
    if k == "list":
        return f"(list {gal(t[1], node)})"
    if k == "opt":
        return f"(option {gal(t[1], node)})"
    if k == "tuple":
        return "(" + " * ".join(gal(x, node) for x in t[1]) + ")"
    fail(node, f"no Gallina type for {show(t)}")


def parse_type(src, aliases, node=None):
    """annotation (ast node or source string) -> type"""
    if isinstance(src, str):
        src = ast.parse(src, mode="eval").body
    if isinstance(src, ast.Constant) and isinstance(src.value, str):
        return parse_type(src.value, aliases, node)
    if isinstance(src, ast.Name):
        n = src.id
        if n in aliases:
            return parse_type(aliases[n], aliases, node)
        if n in aliases.get("__abstract__", ()):
            return ("abs", n)
        prim = {"int": INT, "bool": BOOL, "str": STR, "char": CHAR, "obj": OBJ, "tok": TOK, "float": FLOAT}
        if n in prim:
            return prim[n]
    if isinstance(src, ast.Subscript) and isinstance(src.value, ast.Name):
        h = src.value.id
        arg = src.slice
        if h in ("List", "Iterable", "Sequence"):
            return TList(parse_type(arg, aliases, node))
        if h == "Optional":
            return ("opt", parse_type(arg, aliases, node))
        if (h == "Tuple" and isinstance(arg, ast.Tuple) and len(arg.elts) == 2
                and isinstance(arg.elts[1], ast.Constant) and arg.elts[1].value is Ellipsis):
            return TList(parse_type(arg.elts[0], aliases, node))     # variable-length tuple = list
        if h == "Tuple" and isinstance(arg, ast.Tuple):
            return ("tuple", tuple(parse_type(e, aliases, node) for e in arg.elts))
    fail(node or src, "unsupported type annotation " + ast.dump(src)[:60])


# ------------------------------------------------------------------ environment
class Env:
    def __init__(self):
        self.vars = {}      # name -> type | POISON
        self.valid = {}     # alias name -> bool (the bound method still denotes the same list)
        self.objs = {}      # object under construction -> (class, already used as a value)

    def copy(self):
        e = Env()
        e.vars = dict(self.vars)
        e.valid = dict(self.valid)
        e.objs = dict(self.objs)
        return e


class Ctx:
    """how `return e`, `break`, `continue` are printed at this point"""
    def __init__(self, ret=None, brk=None, cont=None):
        self.ret, self.brk, self.cont = ret, brk, cont


def gname(key):
    if key.startswith("self."):
        return "self_" + key[5:]
    return mangle(key.replace(".", "__")) if "." in key else mangle(key)


def mangle(name):
    return name + "_" if (name in KEYWORDS or name.startswith(("t2_", "self_")) or name.endswith("_gen")) else name


def zlit(n):
    return f"({n})" if n < 0 else str(n)


def pat(names):
    """binder pattern for `let '..`, `fun '..`, `do .. <-`, match arms: names is a (nested) list"""
    if isinstance(names, str):
        return names
    if len(names) == 0:
        return "_"
    if len(names) == 1:
        return pat(names[0])
    return "(" + ", ".join(pat(n) for n in names) + ")"


def fpat(names):
    p = pat(names)
    return "'" + p if p.startswith("(") else p


def tup(names):
    if len(names) == 0:
        return "tt"
    if len(names) == 1:
        return names[0]
    return "(" + ", ".join(names) + ")"


def lift(cr):
    code, r = cr
    return code if r else f"Ok ({code})"


def wrap(B, cr):
    """prefix the bindings B (evaluation order) to a block"""
    code, r = cr
    for p, c, isres in reversed(B):
        if isres:
            code = f"do {p} <- {c};\n{code if r else 'Ok (' + code + ')'}"
            r = True
        else:
            code = f"let {fpat_s(p)} := {c} in\n{code}"
    return code, r


def fpat_s(p):
    return "'" + p if p.startswith("(") else p


# ------------------------------------------------------------------ syntactic scans
def walk_stmts(stmts):
    for s in stmts:
        yield s
        for f in ("body", "orelse"):
            if hasattr(s, f) and isinstance(getattr(s, f), list):
                yield from walk_stmts(getattr(s, f))


def mutated_base(call):
    """`x.append(..)`, `x.pop()`, `x[i].append(..)` -> 'x' (the local whose value changes), else None"""
    f = call.func
    if isinstance(f, ast.Attribute) and f.attr in ("append", "pop"):
        if isinstance(f.value, ast.Name):
            return f.value.id
        if f.attr == "append" and isinstance(f.value, ast.Subscript) and isinstance(f.value.value, ast.Name):
            return f.value.value.id
    return None


def target_names(t):
    if isinstance(t, ast.Name):
        return [t.id]
    if isinstance(t, (ast.Tuple, ast.List)):
        return [n for e in t.elts for n in target_names(e)]
    return []


def has_return(stmts):
    return any(isinstance(s, ast.Return) for s in walk_stmts(stmts))


def has_loop_exit(stmts):
    """break/continue belonging to the enclosing loop, or a return at any depth"""
    for s in stmts:
        if isinstance(s, (ast.Break, ast.Continue, ast.Return)):
            return True
        if isinstance(s, ast.If) and (has_loop_exit(s.body) or has_loop_exit(s.orelse)):
            return True
        if isinstance(s, ast.While) or (isinstance(s, ast.For) and has_loop_exit(s.body)):
            return True     # a nested loop with exits answers through this one
    return False


def may_exit(stmts):
    return has_loop_exit(stmts) or any(isinstance(s, ast.Raise) for s in walk_stmts(stmts))


def definitely_assigns(stmts, v):
    for s in stmts:
        if isinstance(s, ast.Assign) and any(v in target_names(t) for t in s.targets):
            return True
        if isinstance(s, (ast.AugAssign, ast.AnnAssign)) and v in target_names(s.target) and getattr(s, "value", 1):
            return True
        if isinstance(s, ast.If) and definitely_assigns(s.body, v) and definitely_assigns(s.orelse, v):
            return True
    return False


# ------------------------------------------------------------------ one function
class Fn:
    """registration record of one function to translate (see t_t2.py)"""
    def __init__(self, file, path, gname=None, params=None, self_type=None, self_fields=None, externs=None,
                 consts=None, ctors=None, aliases=None, ret=None, fields=None, enums=None,
                 prop=False, abstract=None, objects=None, ignored_attrs=None,
                 obj_fields=None, opaque_params=None):
        self.file, self.path = file, path
        self.gname = gname or path.split(".")[-1].lstrip("_") + "_gen"
        self.params = params or {}            # parameter name -> type string (overrides the annotation)
        self.self_type = self_type            # type string of `self` when it is a value (NamedTuple)
        self.self_fields = self_fields or {}  # attribute -> type string: `self.attr` becomes a leading argument
        self.externs = externs or {}          # callee name -> (arg type strings, ret type string, is_res): argument
        self.consts = consts or {}            # module constant -> (Gallina name, type string)
        self.ctors = ctors or {}              # class name -> arity (NamedTuple constructor = tuple)
        self.aliases = aliases or {}          # type alias name -> type string
        self.ret = ret                        # return type string (overrides the annotation; optional)
        self.fields = fields or {}            # NamedTuple field -> (index, arity): `x.field` is a projection
        self.enums = enums or {}              # IntEnum class name -> file defining it: members are int constants
        self.prop = prop                      # a @property of a NamedTuple value: `x.name` calls it
        self.abstract = abstract or []        # names of opaque, always-truthy object types: (C : Type) binders
        self.objects = objects or {}          # class built by `self.__new__(C)` + attribute stores -> [(attr, type)]
        self.ignored_attrs = ignored_attrs or []   # memo attributes whose `= None` stores are dropped
        self.obj_fields = obj_fields or {}    # "param.attr" -> type: attribute of an opaque parameter, a leading argument
        self.opaque_params = opaque_params or []   # parameters used only through obj_fields (console, options)
        # filled by translate():
        self.sig = None


class FT:
    def __init__(self, spec, node, registry, is_method, repo="/repo"):
        self.spec, self.node, self.reg = spec, node, registry
        self.repo = repo
        self.enum_vals = {}
        self.is_method = is_method
        self.tmp = 0
        self.fuel = False
        self.ret_ty = None
        self.ctoralias = {}  # local name -> NamedTuple class it abbreviates (`_Segment = Segment`)
        self.alias = {}      # local name -> (kind, base)   kind: append | pop | append_last
        self.fnalias = {}    # local name -> function name
        self.mutated = set()
        self.extern_sig = {k: ([parse_type(a, spec.aliases) for a in v[0]], parse_type(v[1], spec.aliases), v[2])
                           for k, v in spec.externs.items()}

    def fresh(self):
        self.tmp += 1
        return f"t2_{self.tmp}"

    # -------------------------------------------------------------- pre-scan
    def is_function_name(self, n):
        return n in self.reg or n in self.extern_sig

    def prescan(self, body, params):
        local = set(params)
        for s in walk_stmts(body):
            if isinstance(s, ast.Assign):
                for t in s.targets:
                    local.update(target_names(t))
            elif isinstance(s, (ast.AugAssign, ast.AnnAssign)):
                local.update(target_names(s.target))
            elif isinstance(s, ast.For):
                local.update(target_names(s.target))
        for s in walk_stmts(body):
            if not (isinstance(s, ast.Assign) and len(s.targets) == 1 and isinstance(s.targets[0], ast.Name)):
                continue
            name, v = s.targets[0].id, s.value
            a = None
            if isinstance(v, ast.Attribute) and v.attr in ("append", "pop"):
                if isinstance(v.value, ast.Name):
                    a = (v.attr, v.value.id)
                elif (v.attr == "append" and isinstance(v.value, ast.Subscript) and isinstance(v.value.value, ast.Name)
                      and isinstance(v.value.slice, ast.UnaryOp) and isinstance(v.value.slice.op, ast.USub)
                      and isinstance(v.value.slice.operand, ast.Constant) and v.value.slice.operand.value == 1):
                    a = ("append_last", v.value.value.id)
                else:
                    fail(s, "bound method of something that is not a local list")
            if a:
                if self.alias.get(name, a) != a:
                    fail(s, f"{name} is bound to two different methods")
                self.alias[name] = a
                self.mutated.add(a[1])
            elif isinstance(v, ast.Name) and v.id in self.spec.ctors and v.id not in local:
                self.ctoralias[name] = v.id
                self.fnalias[name] = v.id      # same discipline: never a value, bound once
            elif isinstance(v, ast.Name) and self.is_function_name(v.id) and v.id not in local:
                if self.fnalias.get(name, v.id) != v.id:
                    fail(s, f"{name} names two different functions")
                self.fnalias[name] = v.id
        for name in list(self.alias) + list(self.fnalias):
            n = sum(1 for s in walk_stmts(body) for t in (getattr(s, "targets", None) or [getattr(s, "target", None)])
                    if t is not None and name in target_names(t))
            k = sum(1 for s in walk_stmts(body) if isinstance(s, ast.Assign) and len(s.targets) == 1
                    and isinstance(s.targets[0], ast.Name) and s.targets[0].id == name
                    and (isinstance(s.value, ast.Attribute) or isinstance(s.value, ast.Name)))
            if n != k:
                fail(self.node, f"{name} is both a bound method/function alias and a variable")
        for s in walk_stmts(body):
            for c in ast.walk(s):
                if isinstance(c, ast.Call) and mutated_base(c):
                    self.mutated.add(mutated_base(c))
        for p in params:
            if p in self.mutated:
                fail(self.node, f"parameter {p} is mutated (caller-visible effect)")

    def assigned(self, stmts):
        """locals (possibly) assigned in stmts, in order of first occurrence"""
        out = []

        def add(n):
            if n not in out and n != "_" and n not in self.alias and n not in self.fnalias:
                out.append(n)

        def expr(e):
            for c in ast.walk(e):
                if isinstance(c, ast.Call):
                    if isinstance(c.func, ast.Name) and c.func.id in self.alias:
                        add(self.alias[c.func.id][1])
                    if mutated_base(c):
                        add(mutated_base(c))

        def go(ss):
            for s in ss:
                if isinstance(s, ast.Assign):
                    expr(s.value)
                    for t in s.targets:
                        for n in target_names(t):
                            add(n)
                elif isinstance(s, (ast.AugAssign, ast.AnnAssign)):
                    if s.value is not None:
                        expr(s.value)
                        for n in target_names(s.target):
                            add(n)
                elif isinstance(s, ast.For):
                    expr(s.iter)
                    for n in target_names(s.target):
                        add(n)
                    go(s.body)
                elif isinstance(s, ast.While):
                    expr(s.test)
                    go(s.body)
                elif isinstance(s, ast.If):
                    expr(s.test)
                    go(s.body)
                    go(s.orelse)
                elif isinstance(s, (ast.Expr, ast.Return)) and s.value is not None:
                    if isinstance(s.value, (ast.Yield, ast.YieldFrom)):
                        add("t2out")
                    expr(s.value)
                elif isinstance(s, ast.Assert):
                    expr(s.test)
        go(stmts)
        return out

    # -------------------------------------------------------------- expressions
    def var(self, node, env):
        n = node.id
        if n in self.alias or n in self.fnalias:
            fail(node, f"{n} (a bound method / function alias) used as a value")
        if n in env.vars:
            t = env.vars[n]
            if t is POISON:
                fail(node, f"{n} may be unbound or holds a value this translation does not track")
            return mangle(n), t
        if n in self.spec.consts:
            g, ts = self.spec.consts[n]
            return g, parse_type(ts, self.spec.aliases, node)
        fail(node, f"unknown name {n}")

    def pure(self, node, env, what):
        B = []
        c, t = self.ex(node, env, B)
        if B:
            fail(node, f"{what} must not be able to raise")
        return c, t

    def truth_of(self, node, env, B):
        """node in a boolean context -> Gallina bool"""
        if isinstance(node, ast.BoolOp):
            op = " && " if isinstance(node.op, ast.And) else " || "
            parts = [self.truth_of(node.values[0], env, B)]
            for v in node.values[1:]:
                B2 = []
                parts.append(self.truth_of(v, env, B2))
                if B2:
                    fail(v, "short-circuited operand can raise")
            return "(" + op.join(parts) + ")"
        if isinstance(node, ast.UnaryOp) and isinstance(node.op, ast.Not):
            if isinstance(node.operand, (ast.BoolOp, ast.Compare, ast.UnaryOp)):
                return f"(negb {self.truth_of(node.operand, env, B)})"
            c, t = self.ex(node.operand, env, B)
            return self.truth(c, t, node, neg=True)
        c, t = self.ex(node, env, B)
        return self.truth(c, t, node)

    def truth(self, c, t, node, neg=False):
        t = resolve(t)
        if isinstance(t, TVar):
            fail(node, "truth value of an untyped list")
        k = t[0]
        if k == "bool":
            return f"(negb {c})" if neg else c
        if k in ("int", "char") and k == "int":
            return f"({c} =? 0)" if neg else f"(negb ({c} =? 0))"
        if k == "float":
            return f"(Qeq_bool {c} q_zero)" if neg else f"(negb (Qeq_bool {c} q_zero))"
        if k == "list":
            return f"(negb (nonempty {c}))" if neg else f"(nonempty {c})"
        if k == "opt":
            inner = self.truth("t2_o", t[1], node) if resolve(t[1])[0] not in ("obj", "abs") else "true"
            r = f"(match {c} with Some t2_o => {inner} | None => false end)"
            return f"(negb {r})" if neg else r
        if k in ("obj", "abs"):
            return "false" if neg else "true"
        fail(node, f"truth value of {show(t)}")

    def elem_type(self, t, node):
        t = resolve(t)
        if isinstance(t, TVar) or t[0] != "list":
            fail(node, f"iteration over {show(t)}")
        return t[1]

    def bind_target(self, target, ty, env):
        """-> nested name structure; enters the names in env"""
        ty = resolve(ty)
        if isinstance(target, ast.Name):
            if target.id in self.alias or target.id in self.fnalias:
                fail(target, "assignment to a method alias")
            if target.id == "_":
                return "_"
            env.vars[target.id] = ty
            return mangle(target.id)
        if isinstance(target, (ast.Tuple, ast.List)):
            if isinstance(ty, TVar) or ty[0] != "tuple" or len(ty[1]) != len(target.elts):
                fail(target, f"cannot unpack {show(ty)} into {len(target.elts)} names")
            return [self.bind_target(e, t, env) for e, t in zip(target.elts, ty[1])]
        fail(target, "unsupported assignment target")

    def comprehension(self, node, env, B):
        if len(node.generators) != 1 or node.generators[0].is_async:
            fail(node, "comprehension with several generators")
        g = node.generators[0]
        it, ity = self.ex(g.iter, env, B)
        e2 = env.copy()
        p = self.bind_target(g.target, self.elem_type(ity, g.iter), e2)
        src = it
        for cond in g.ifs:
            Bc = []
            c = self.truth_of(cond, e2, Bc)
            if Bc:
                fail(cond, "comprehension condition can raise")
            src = f"(filter (fun {fpat(p)} => {c}) {src})"
        Be = []
        ec, et = self.ex(node.elt, e2, Be)
        if not Be:
            return f"(map (fun {fpat(p)} => {ec}) {src})", TList(et)
        body, _ = wrap(Be, (f"Ok ({ec})", True))
        t = self.fresh()
        B.append((t, f"mapM (fun {fpat(p)} =>\n{body}) {src}", True))
        return t, TList(et)

    def seq_arg(self, node, env, B):
        if isinstance(node, (ast.GeneratorExp, ast.ListComp)):
            return self.comprehension(node, env, B)
        return self.ex(node, env, B)

    def call_fn(self, name, args, node, env, B, selfarg=None):
        """call of a translated function / function argument"""
        if name in self.extern_sig:
            ptys, rty, isres, fuel, g, lead, ext = *self.extern_sig[name], False, mangle(name.replace(".", "_")), [], []
        else:
            sig = self.reg[name]
            ptys, rty, isres, fuel, g, lead = sig["ptys"], sig["ret"], sig["res"], sig["fuel"], sig["gname"], sig["lead"]
            ext = sig.get("externs", [])
        if lead:
            fail(node, f"{name} reads attributes of its object")
        for e in ext:
            if e not in self.extern_sig:
                fail(node, f"{name} needs the function argument {e}, which this function does not declare")
        actual = ([selfarg] if selfarg is not None else []) + [self.ex(a, env, B) for a in args]
        if len(actual) != len(ptys):
            fail(node, f"{name}: every argument must be given positionally ({len(ptys)} expected)")
        codes = []
        for (c, t), pt in zip(actual, ptys):
            pt = resolve(pt)
            if pt[0] == "opt" and resolve(t) != NONE and (isinstance(resolve(t), TVar) or resolve(t)[0] != "opt"):
                unify(t, pt[1], node)
                c = f"(Some {c})"
            else:
                unify(t, pt, node)
            codes.append(c)
        codes = [mangle(e.replace(".", "_")) for e in ext] + codes
        if fuel:
            self.fuel = True
            codes.insert(0, "fuel")
        code = "(" + " ".join([g] + codes) + ")"
        if isres:
            t = self.fresh()
            B.append((t, code, True))
            return t, rty
        return code, rty

    def ex(self, node, env, B):
        m = getattr(self, "ex_" + type(node).__name__, None)
        if m is None:
            fail(node, "expression outside the supported subset")
        return m(node, env, B)

    def ex_Constant(self, node, env, B):
        v = node.value
        if v is True or v is False:
            return ("true" if v else "false"), BOOL
        if v is None:
            return "None", NONE
        if isinstance(v, int):
            return zlit(v), INT
        if isinstance(v, float):
            from fractions import Fraction
            fr = Fraction(repr(v))
            return f"(Qmake {zlit(fr.numerator)} {fr.denominator}%positive)", FLOAT
        if isinstance(v, str):
            return "[" + "; ".join(str(ord(ch)) for ch in v) + "]", STR
        fail(node, "constant outside the subset")

    def ex_Name(self, node, env, B):
        if node.id in env.objs:      # the constructed object as a value: the tuple of its attributes
            cls, _ = env.objs[node.id]
            parts = []
            for attr, ts in self.spec.objects[cls]:
                key = f"{node.id}.{attr}"
                if key not in env.vars or env.vars[key] is POISON:
                    fail(node, f"{key} is not set on every path")
                parts.append((gname(key), env.vars[key]))
            env.objs[node.id] = (cls, True)
            return "(" + ", ".join(c for c, _ in parts) + ")", ("tuple", tuple(t for _, t in parts))
        return self.var(node, env)

    def ex_Tuple(self, node, env, B):
        if len(node.elts) < 2:
            fail(node, "tuple of fewer than two elements")
        parts = [self.ex(e, env, B) for e in node.elts]
        return "(" + ", ".join(c for c, _ in parts) + ")", ("tuple", tuple(t for _, t in parts))

    def ex_List(self, node, env, B):
        parts = [self.ex(e, env, B) for e in node.elts]
        t = TVar()
        for _, pt in parts:
            t = unify(t, pt, node)
        return "[" + "; ".join(c for c, _ in parts) + "]", TList(t)

    def ex_ListComp(self, node, env, B):
        return self.comprehension(node, env, B)

    def ex_UnaryOp(self, node, env, B):
        if isinstance(node.op, ast.Not):
            return self.truth_of(node, env, B), BOOL
        c, t = self.ex(node.operand, env, B)
        if isinstance(node.op, ast.USub) and resolve(t) == FLOAT:
            return f"(Qopp {c})", FLOAT
        if isinstance(node.op, ast.USub) and resolve(t) == INT:
            if isinstance(node.operand, ast.Constant):
                return zlit(-node.operand.value), INT
            return f"(- {c})", INT
        if isinstance(node.op, ast.Invert) and resolve(t) == INT:
            return f"(Z.lnot {c})", INT
        fail(node, "unary operator outside the subset")

    def as_q(self, c, t, node):
        t = resolve(t)
        if t == FLOAT:
            return c
        if t == INT:
            return f"(inject_Z {c})"
        fail(node, f"{show(t)} where a number is needed")

    def ex_BinOp(self, node, env, B):
        op = node.op
        a, ta = self.ex(node.left, env, B)
        b, tb = self.ex(node.right, env, B)
        ta, tb = resolve(ta), resolve(tb)
        ints = ta == INT and tb == INT
        nums = ta in (INT, FLOAT) and tb in (INT, FLOAT)
        if isinstance(op, ast.Div):
            if not nums:
                fail(node, "true division of non-numbers")
            t = self.fresh()      # true division: an exact rational, ZeroDivisionError on 0
            B.append((t, f"py_qdiv {self.as_q(a, ta, node)} {self.as_q(b, tb, node)}", True))
            return t, FLOAT
        if nums and not ints:
            qop = {ast.Add: "Qplus", ast.Sub: "Qminus", ast.Mult: "Qmult"}.get(type(op))
            if qop is None:
                fail(node, f"operator {type(op).__name__} on floats")
            return f"({qop} {self.as_q(a, ta, node)} {self.as_q(b, tb, node)})", FLOAT
        if isinstance(op, ast.Add):
            if ints:
                return f"({a} + {b})", INT
            if not isinstance(ta, TVar) and ta[0] == "list":
                return f"({a} ++ {b})", unify(ta, tb, node)
        if isinstance(op, ast.Mult):
            if ints:
                return f"({a} * {b})", INT
            if not isinstance(ta, TVar) and ta[0] == "list" and tb == INT:
                return f"(py_mul_list {a} {b})", ta
            if not isinstance(tb, TVar) and tb[0] == "list" and ta == INT:
                return f"(py_mul_list {b} {a})", tb
        if ints:
            simple = {ast.Sub: "-"}
            if type(op) in simple:
                return f"({a} {simple[type(op)]} {b})", INT
            if isinstance(op, (ast.FloorDiv, ast.Mod)):
                lit = isinstance(node.right, ast.Constant) and node.right.value != 0
                sym, fn = ("/", "py_floordiv") if isinstance(op, ast.FloorDiv) else ("mod", "py_mod")
                if lit:
                    return f"({a} {sym} {b})", INT
                t = self.fresh()
                B.append((t, f"{fn} {a} {b}", True))
                return t, INT
            bits = {ast.RShift: "Z.shiftr", ast.LShift: "Z.shiftl", ast.BitAnd: "Z.land", ast.BitOr: "Z.lor",
                    ast.BitXor: "Z.lxor"}
            if type(op) in bits:
                return f"({bits[type(op)]} {a} {b})", INT
        fail(node, f"operator {type(op).__name__} on {show(ta)}, {show(tb)}")

    def ex_BoolOp(self, node, env, B):
        vals = []
        for i, v in enumerate(node.values):
            B2 = B if i == 0 else []
            vals.append(self.ex(v, env, B2))
            if i and B2:
                fail(v, "short-circuited operand can raise")
        if all(resolve(t) == BOOL for _, t in vals):
            op = " && " if isinstance(node.op, ast.And) else " || "
            return "(" + op.join(c for c, _ in vals) + ")", BOOL
        if isinstance(node.op, ast.Or) and len(vals) == 2:
            (a, ta), (b, tb) = vals
            ta, tb = resolve(ta), resolve(tb)
            if not isinstance(ta, TVar) and ta[0] == "opt" and not (not isinstance(tb, TVar) and tb[0] == "opt") and tb != NONE:
                ty = unify(ta[1], tb, node)     # Optional[T] or T -> T
                tr = self.truth("t2_o", ty, node) if resolve(ty)[0] not in ("obj", "abs") else "true"
                return f"(match {a} with Some t2_o => if {tr} then t2_o else {b} | None => {b} end)", ty
        # value form: `a or b` = a if a else b, `a and b` = b if a else a
        code, ty = vals[-1]
        for c, t in reversed(vals[:-1]):
            ty = unify(ty, t, node)
            tr = self.truth(c, t, node)
            code = f"(if {tr} then {c} else {code})" if isinstance(node.op, ast.Or) else f"(if {tr} then {code} else {c})"
        return code, ty

    def ex_Compare(self, node, env, B):
        operands = [self.ex(node.left, env, B)] + [self.ex(c, env, B) for c in node.comparators]
        parts = []
        for i, op in enumerate(node.ops):
            (a, ta), (b, tb) = operands[i], operands[i + 1]
            ta, tb = resolve(ta), resolve(tb)
            if isinstance(op, (ast.Is, ast.IsNot)):
                if tb != NONE or isinstance(ta, TVar) or ta[0] != "opt":
                    fail(node, "`is` other than <optional> is None")
                c = f"(match {a} with None => true | Some _ => false end)"
                parts.append(c if isinstance(op, ast.Is) else f"(negb {c})")
                continue
            num = ta in (INT, CHAR) and tb in (INT, CHAR)
            if num:
                tbl = {ast.Lt: f"({a} <? {b})", ast.LtE: f"({a} <=? {b})", ast.Gt: f"({b} <? {a})",
                       ast.GtE: f"({b} <=? {a})", ast.Eq: f"({a} =? {b})", ast.NotEq: f"(negb ({a} =? {b}))"}
                if type(op) in tbl:
                    parts.append(tbl[type(op)])
                    continue
            if ta in (INT, FLOAT) and tb in (INT, FLOAT):
                qa, qb = self.as_q(a, ta, node), self.as_q(b, tb, node)
                tbl = {ast.Lt: f"(qltb {qa} {qb})", ast.LtE: f"(Qle_bool {qa} {qb})", ast.Gt: f"(qltb {qb} {qa})",
                       ast.GtE: f"(Qle_bool {qb} {qa})", ast.Eq: f"(Qeq_bool {qa} {qb})",
                       ast.NotEq: f"(negb (Qeq_bool {qa} {qb}))"}
                if type(op) in tbl:
                    parts.append(tbl[type(op)])
                    continue
            if ta == BOOL and tb == BOOL and isinstance(op, (ast.Eq, ast.NotEq)):
                c = f"(Bool.eqb {a} {b})"
                parts.append(c if isinstance(op, ast.Eq) else f"(negb {c})")
                continue
            fail(node, f"comparison {type(op).__name__} on {show(ta)}, {show(tb)}")
        return (parts[0] if len(parts) == 1 else "(" + " && ".join(parts) + ")"), BOOL

    def ex_IfExp(self, node, env, B):
        c = self.truth_of(node.test, env, B)
        Ba, Bb = [], []
        a, ta = self.ex(node.body, env, Ba)
        b, tb = self.ex(node.orelse, env, Bb)
        ty = unify(ta, tb, node)
        if not Ba and not Bb:
            return f"(if {c} then {a} else {b})", ty
        # a branch can raise: the conditional itself is bound, each arm keeps its own bindings
        t = self.fresh()
        B.append((t, f"(if {c} then\n{lift(wrap(Ba, (a, False)))}\nelse\n{lift(wrap(Bb, (b, False)))})", True))
        return t, ty

    def enum_member(self, cls, member, node):
        """IntEnum member -> its integer, read from the class body in the source tree"""
        if cls not in self.enum_vals:
            import os
            with open(os.path.join(self.repo, self.spec.enums[cls]), encoding="utf-8") as f:
                tree = ast.parse(f.read())
            vals = {}
            for c in tree.body:
                if isinstance(c, ast.ClassDef) and c.name == cls:
                    for a in c.body:
                        if (isinstance(a, ast.Assign) and len(a.targets) == 1 and isinstance(a.targets[0], ast.Name)
                                and isinstance(a.value, ast.Constant) and isinstance(a.value.value, int)):
                            vals[a.targets[0].id] = a.value.value
            self.enum_vals[cls] = vals
        if member not in self.enum_vals[cls]:
            fail(node, f"{cls}.{member} is not an integer member")
        return zlit(self.enum_vals[cls][member]), INT

    def key_of(self, node):
        """name under which a local or a declared attribute of self lives in the environment"""
        if isinstance(node, ast.Name):
            return node.id
        if (isinstance(node, ast.Attribute) and isinstance(node.value, ast.Name) and node.value.id == "self"
                and node.attr in self.spec.self_fields):
            return "self." + node.attr
        if (isinstance(node, ast.Attribute) and isinstance(node.value, ast.Name)
                and f"{node.value.id}.{node.attr}" in self.spec.obj_fields):
            return f"{node.value.id}.{node.attr}"
        return None

    def ex_Attribute(self, node, env, B):
        if isinstance(node.value, ast.Name) and node.value.id in self.spec.enums:
            return self.enum_member(node.value.id, node.attr, node)
        k = self.key_of(node)
        if k is not None and k in env.vars:
            if env.vars[k] is POISON:
                fail(node, f"{k} holds a value this translation does not track")
            return gname(k), env.vars[k]
        if node.attr in self.reg and self.reg[node.attr].get("prop"):
            recv = self.ex(node.value, env, B)
            return self.call_fn(node.attr, [], node, env, B, selfarg=recv)
        if node.attr in self.spec.fields:
            i, n = self.spec.fields[node.attr]
            c, t = self.ex(node.value, env, B)
            t = resolve(t)
            if isinstance(t, TVar) or t[0] != "tuple" or len(t[1]) != n:
                fail(node, f".{node.attr} of {show(t)}")
            ps = ", ".join("t2_f" if j == i else "_" for j in range(n))
            return f"(let '({ps}) := {c} in t2_f)", t[1][i]
        fail(node, f"attribute .{node.attr}")

    def ex_Subscript(self, node, env, B):
        s = node.slice
        if isinstance(s, ast.Slice):
            c, t = self.ex(node.value, env, B)
            self.elem_type(t, node)
            step = s.step
            if step is not None:
                st = ast.literal_eval(step) if isinstance(step, (ast.Constant, ast.UnaryOp)) else None
                if st == -1 and s.lower is None and s.upper is None:
                    return f"(rev {c})", t
                if st != 1:
                    fail(node, "slice step other than 1, or [::-1]")
            if s.lower is None and s.upper is None:
                return c, t     # a copy
            lo = hi = "None"
            if s.lower is not None:
                x, tx = self.ex(s.lower, env, B)
                unify(tx, INT, node)
                lo = f"(Some {x})"
            if s.upper is not None:
                x, tx = self.ex(s.upper, env, B)
                unify(tx, INT, node)
                hi = f"(Some {x})"
            return f"(py_slice {c} {lo} {hi})", t
        c, t = self.ex(node.value, env, B)
        rt = resolve(t)
        if not isinstance(rt, TVar) and rt[0] == "tuple":
            try:
                k = ast.literal_eval(s)
            except Exception:
                k = None
            n = len(rt[1])
            if not isinstance(k, int) or isinstance(k, bool) or not (-n <= k < n):
                fail(node, "index of a tuple that is not a constant in range")
            k %= n          # t[k] on a (Named)Tuple = projection of field k
            ps = ", ".join("t2_f" if j == k else "_" for j in range(n))
            return f"(let '({ps}) := {c} in t2_f)", rt[1][k]
        i, ti = self.ex(s, env, B)
        unify(ti, INT, node)
        et = self.elem_type(t, node)
        tmp = self.fresh()
        B.append((tmp, f"py_idx {c} {i}", True))
        return tmp, et

    def ex_Call(self, node, env, B):
        f = node.func
        if (isinstance(f, ast.Attribute) and isinstance(f.value, ast.Name)
                and f"{f.value.id}.{f.attr}" in self.extern_sig):
            # method of an opaque object, declared as a function argument: opaque parameters among the
            # arguments are dropped, keyword arguments follow the positional ones in the order written
            if any(k.arg is None for k in node.keywords):
                fail(node, "**kwargs")
            args = [a for a in list(node.args) + [k.value for k in node.keywords]
                    if not (isinstance(a, ast.Name) and a.id in self.spec.opaque_params)]
            return self.call_fn(f"{f.value.id}.{f.attr}", args, node, env, B)
        if node.keywords:
            fail(node, "keyword arguments")
        if isinstance(f, ast.Attribute):
            if isinstance(f.value, ast.Constant) and f.value.value == "" and f.attr == "join" and len(node.args) == 1:
                c, t = self.seq_arg(node.args[0], env, B)
                et = resolve(self.elem_type(t, node))
                if et == CHAR:
                    return c, STR
                if et == STR:
                    return f"(concat {c})", STR
                fail(node, "join of something that is not a list of strings")
            if f.attr == "pop" and isinstance(f.value, ast.Name) and not node.args:
                return self.pop(f.value.id, node, env, B)
            if f.attr in self.reg and self.reg[f.attr]["method"]:
                recv = self.ex(f.value, env, B)
                return self.call_fn(f.attr, node.args, node, env, B, selfarg=recv)
            if isinstance(f.value, ast.Name) and not node.args and f"{f.value.id}.{f.attr}()" in self.spec.consts:
                g, ts = self.spec.consts[f"{f.value.id}.{f.attr}()"]
                return g, parse_type(ts, self.spec.aliases, node)
            if isinstance(f.value, ast.Name) and f"{f.value.id}.{f.attr}" in self.extern_sig:
                return self.call_fn(f"{f.value.id}.{f.attr}", node.args, node, env, B)
            fail(node, f"method call .{f.attr}")
        if not isinstance(f, ast.Name):
            fail(node, "call of a computed function")
        name = f.id
        if name in self.alias:
            kind, base = self.alias[name]
            if kind == "pop" and not node.args:
                if not env.valid.get(name):
                    fail(node, f"{name} may denote a list that is no longer {base}")
                return self.pop(base, node, env, B)
            fail(node, f"{name}(...) is a statement, not a value")
        name = self.fnalias.get(name, name)
        name = self.ctoralias.get(name, name)
        if name in env.vars:
            fail(node, "call of a local variable")
        if self.is_function_name(name):
            return self.call_fn(name, node.args, node, env, B)
        if name == "cls" and self.cls_name in self.spec.ctors:
            name = self.cls_name
        if name in self.spec.ctors:
            return self.ctor(name, node, env, B)
        b = getattr(self, "bi_" + name, None)
        if b is None:
            fail(node, f"call of {name}")
        return b(node, env, B)

    def ctor(self, name, node, env, B):
        """NamedTuple(...) = tuple; trailing fields may come from declared defaults; arity 1 = the value"""
        c = self.spec.ctors[name]
        arity, defaults = (c, []) if isinstance(c, int) else c
        parts = [self.ex(a, env, B) for a in node.args]
        missing = arity - len(parts)
        if missing < 0 or missing > len(defaults):
            fail(node, f"{name}() arity")
        for code, ts in (defaults[len(defaults) - missing:] if missing else []):
            parts.append((code, parse_type(ts, self.spec.aliases, node)))
        if name in self.spec.aliases:
            want = parse_type(self.spec.aliases[name], self.spec.aliases, node)
            if want[0] == "tuple" and len(want[1]) == arity:
                for (c2, t2_), w in zip(parts, want[1]):
                    unify(t2_, w, node)
                parts = [(c2, w) for (c2, _), w in zip(parts, want[1])]
        if arity == 1:
            return parts[0]
        return "(" + ", ".join(c2 for c2, _ in parts) + ")", ("tuple", tuple(t for _, t in parts))

    def pop(self, base, node, env, B):
        if base not in env.vars or env.vars[base] is POISON:
            fail(node, f"pop of unknown list {base}")
        t = env.vars[base]
        et = self.elem_type(t, node)
        if self.popped is None:
            fail(node, "pop() outside a plain statement")
        for a2, (k2, b2) in self.alias.items():
            if b2 == base and k2 == "append_last":
                env.valid[a2] = False
        tmp = self.fresh()
        B.append((f"({tmp}, {mangle(base)})", f"py_pop {mangle(base)}", True))
        self.popped.append(base)
        return tmp, et

    # ---- builtins
    def ints(self, node, env, B):
        parts = [self.ex(a, env, B) for a in node.args]
        for _, t in parts:
            unify(t, INT, node)
        return [c for c, _ in parts]

    def minmax(self, node, env, B, zf, lf):
        if len(node.args) == 1:
            c, t = self.seq_arg(node.args[0], env, B)
            unify(self.elem_type(t, node), INT, node)
            tmp = self.fresh()
            B.append((tmp, f"{lf} {c}", True))
            return tmp, INT
        parts = [self.ex(a, env, B) for a in node.args]
        if any(resolve(t) == FLOAT for _, t in parts):
            cs = [self.as_q(c, t, node) for c, t in parts]
            code = cs[0]
            for c in cs[1:]:
                code = f"({zf.replace('Z.', 'Q')} {code} {c})"
            return code, FLOAT
        for _, t in parts:
            unify(t, INT, node)
        code = parts[0][0]
        for c, _ in parts[1:]:
            code = f"({zf} {code} {c})"
        return code, INT

    def bi_min(self, node, env, B):
        return self.minmax(node, env, B, "Z.min", "py_min_list")

    def bi_max(self, node, env, B):
        return self.minmax(node, env, B, "Z.max", "py_max_list")

    def bi_sum(self, node, env, B):
        if len(node.args) != 1:
            fail(node, "sum with a start value")
        c, t = self.seq_arg(node.args[0], env, B)
        unify(self.elem_type(t, node), INT, node)
        return f"(sumZ {c})", INT

    def bi_len(self, node, env, B):
        c, t = self.ex(node.args[0], env, B)
        self.elem_type(t, node)
        return f"(zlen {c})", INT

    def bi_abs(self, node, env, B):
        (c,) = self.ints(node, env, B)
        return f"(Z.abs {c})", INT

    def anyall(self, node, env, B, fn):
        c, t = self.seq_arg(node.args[0], env, B)
        et = self.elem_type(t, node)
        return f"({fn} (fun t2_x => {self.truth('t2_x', et, node)}) {c})", BOOL

    def bi_any(self, node, env, B):
        return self.anyall(node, env, B, "existsb")

    def bi_all(self, node, env, B):
        return self.anyall(node, env, B, "forallb")

    def bi_range(self, node, env, B):
        cs = self.ints(node, env, B)
        if len(cs) == 1:
            return f"(py_range 0 {cs[0]})", TList(INT)
        if len(cs) == 2:
            return f"(py_range {cs[0]} {cs[1]})", TList(INT)
        fail(node, "range with a step")

    def bi_zip(self, node, env, B):
        if len(node.args) < 2:
            fail(node, "zip of fewer than two sequences")
        parts = [self.seq_arg(a, env, B) for a in node.args]
        code = parts[0][0]
        for c, _ in parts[1:]:
            code = f"(combine {code} {c})"
        return code, TList(("tuple", tuple(self.elem_type(t, node) for _, t in parts)))

    def bi_enumerate(self, node, env, B):
        if len(node.args) != 1:
            fail(node, "enumerate with a start value")
        c, t = self.seq_arg(node.args[0], env, B)
        return f"(py_enumerate {c})", TList(("tuple", (INT, self.elem_type(t, node))))

    def bi_reversed(self, node, env, B):
        c, t = self.ex(node.args[0], env, B)
        self.elem_type(t, node)
        return f"(rev {c})", t

    def bi_list(self, node, env, B):
        c, t = self.seq_arg(node.args[0], env, B)
        self.elem_type(t, node)
        return c, t

    def bi_ord(self, node, env, B):
        c, t = self.ex(node.args[0], env, B)
        if resolve(t) != CHAR:
            fail(node, "ord of something not declared a single character")
        return c, INT

    def bi_str(self, node, env, B):
        c, t = self.ex(node.args[0], env, B)
        if resolve(t) != INT:
            fail(node, "str() of something that is not an int")
        return f"(py_str_int {c})", STR

    def bi_tuple(self, node, env, B):
        return self.bi_list(node, env, B)

    def ex_JoinedStr(self, node, env, B):
        parts = []
        for v in node.values:
            if isinstance(v, ast.Constant) and isinstance(v.value, str):
                parts.append(self.ex_Constant(v, env, B)[0])
            elif isinstance(v, ast.FormattedValue) and v.conversion == -1 and v.format_spec is None:
                c, t = self.ex(v.value, env, B)
                if resolve(t) == INT:
                    parts.append(f"(py_str_int {c})")
                elif resolve(t) == STR:
                    parts.append(c)
                else:
                    fail(node, "f-string field that is neither an int nor a str")
            else:
                fail(node, "f-string with a conversion or a format spec")
        return "(" + " ++ ".join(parts or ["[]"]) + ")", STR

    def bi_cast(self, node, env, B):
        return self.ex(node.args[1], env, B)

    def bi_isinstance(self, node, env, B):
        c, t = self.ex(node.args[0], env, B)
        t = resolve(t)
        cls = node.args[1].id if isinstance(node.args[1], ast.Name) else None
        if (cls in self.spec.aliases and not isinstance(t, TVar) and t[0] == "opt"
                and resolve(t[1]) == parse_type(self.spec.aliases[cls], self.spec.aliases, node)):
            return f"(match {c} with Some _ => true | None => false end)", BOOL
        kinds = {"int": ("int", "bool"), "bool": ("bool",), "str": None, "list": ("list",), "tuple": ("tuple",)}
        if cls not in kinds or isinstance(t, TVar) or t[0] in ("opt", "obj") or kinds[cls] is None:
            fail(node, "isinstance not decidable from the declared type")
        return ("true" if t[0] in kinds[cls] else "false"), BOOL

    def rounding(self, node, env, B, fn):
        if not (len(node.args) == 1 and isinstance(node.args[0], ast.BinOp) and isinstance(node.args[0].op, ast.Div)):
            fail(node, f"{fn} of something that is not a true division")
        a, ta = self.ex(node.args[0].left, env, B)
        b, tb = self.ex(node.args[0].right, env, B)
        if FLOAT in (resolve(ta), resolve(tb)):
            if fn != "py_ceil_div":
                fail(node, "round()/int() of a float quotient")
            t = self.fresh()
            B.append((t, f"py_qdiv {self.as_q(a, ta, node)} {self.as_q(b, tb, node)}", True))
            return f"(Qceiling {t})", INT
        unify(ta, INT, node)
        unify(tb, INT, node)
        t = self.fresh()
        B.append((t, f"{fn} {a} {b}", True))
        return t, INT

    def bi_round(self, node, env, B):
        return self.rounding(node, env, B, "py_round_div")

    def bi_ceil(self, node, env, B):
        return self.rounding(node, env, B, "py_ceil_div")

    def bi_int(self, node, env, B):
        return self.rounding(node, env, B, "py_trunc_div")

    # -------------------------------------------------------------- statements
    def blk(self, stmts, env, ctx, tail):
        if not stmts:
            return tail(env)
        s = stmts[0]
        m = getattr(self, "st_" + type(s).__name__, None)
        if m is None:
            fail(s, "statement outside the supported subset")
        return m(s, env, ctx, lambda e: self.blk(stmts[1:], e, ctx, tail))

    def expr_stmt(self, node, env, B):
        """evaluate an expression of a statement; pop() rebinds its list, so nothing else in the
        statement may mention that list"""
        self.popped = []
        c, t = self.ex(node, env, B)
        popped, self.popped = self.popped, None
        for base in popped:
            n = sum(1 for x in ast.walk(node) if isinstance(x, ast.Name) and
                    (x.id == base or self.alias.get(x.id, (0, 0))[1] == base))
            if n != 1:
                fail(node, f"{base} is popped and mentioned again in the same statement")
        return c, t

    def invalidate(self, env, base):
        for a, (_, b) in self.alias.items():
            if b == base:
                env.valid[a] = False

    def assign(self, target, code, ty, env, node, rest, B):
        """`target = <code : ty>` then the rest"""
        ty = resolve(ty)
        env = env.copy()
        if isinstance(target, ast.Name):
            n = target.id
            p = self.bind_target(target, ty, env)
            if n in self.mutated or (not isinstance(ty, TVar) and ty[0] == "list"):
                self.invalidate(env, n)
            return wrap(B + [(p, code, False)], rest(env))
        if isinstance(target, (ast.Tuple, ast.List)):
            k = len(target.elts)
            if not isinstance(ty, TVar) and ty[0] == "list" and 2 <= k <= 4:
                p = self.bind_target(target, ("tuple", (ty[1],) * k), env)
                return wrap(B + [(pat(p), f"py_unpack{k} {code}", True)], rest(env))
            p = self.bind_target(target, ty, env)
            for n in target_names(target):
                self.invalidate(env, n)
            return wrap(B + [(pat(p), code, False)], rest(env))
        fail(node, "assignment target outside the subset")

    def check_alias_copy(self, s, target, value, ty):
        ty = resolve(ty)
        if isinstance(value, ast.Name) and isinstance(target, ast.Name) and not isinstance(ty, TVar) and ty[0] == "list":
            if target.id in self.mutated or value.id in self.mutated:
                fail(s, f"{target.id} and {value.id} would be two names of one mutated list")

    def fresh_elem(self, node, ty):
        ty = resolve(ty)
        if not isinstance(ty, TVar) and ty[0] == "list" and isinstance(node, (ast.Name, ast.Subscript, ast.Attribute)):
            fail(node, "a list stored inside a list must be a fresh value (aliasing)")

    def st_Assign(self, s, env, ctx, rest):
        if len(s.targets) != 1:
            fail(s, "chained assignment")
        t = s.targets[0]
        if isinstance(t, ast.Name) and t.id in self.alias:
            kind, base = self.alias[t.id]
            if base not in env.vars or env.vars[base] is POISON:
                fail(s, f"method of unknown list {base}")
            env = env.copy()
            env.valid[t.id] = True
            if kind == "append_last":
                unify(env.vars[base], TList(TList(TVar())), s)
                return wrap([("_", f"py_idx {mangle(base)} (-1)", True)], rest(env))
            return rest(env)
        if isinstance(t, ast.Name) and t.id in self.fnalias:
            return rest(env)
        v = s.value
        if (isinstance(t, ast.Name) and isinstance(v, ast.Call) and isinstance(v.func, ast.Attribute)
                and v.func.attr == "__new__" and len(v.args) == 1 and isinstance(v.args[0], ast.Name)
                and v.args[0].id in self.spec.objects):
            env = env.copy()       # an object under construction: its attributes are locals until it is read
            env.objs[t.id] = (v.args[0].id, False)
            env.vars.pop(t.id, None)
            return rest(env)
        if isinstance(t, ast.Attribute) and isinstance(t.value, ast.Name) and t.value.id in env.objs:
            cls, frozen = env.objs[t.value.id]
            if frozen:
                fail(s, f"{t.value.id} is modified after it was used as a value")
            if t.attr in self.spec.ignored_attrs:
                if not (isinstance(v, ast.Constant) and v.value is None):
                    fail(s, f"memo attribute {t.attr} set to something other than None")
                return rest(env)
            decl = dict(self.spec.objects[cls])
            if t.attr not in decl:
                fail(s, f"undeclared attribute {t.attr}")
            B = []
            self.popped = []
            c, ty = self.ex_as(v, env, B, parse_type(decl[t.attr], self.spec.aliases, s))
            self.popped = None
            ty = unify(ty, parse_type(decl[t.attr], self.spec.aliases, s), s)
            env = env.copy()
            key = f"{t.value.id}.{t.attr}"
            env.vars[key] = ty
            return wrap(B + [(gname(key), c, False)], rest(env))
        B = []
        c, ty = self.expr_stmt(s.value, env, B)
        self.check_alias_copy(s, t, s.value, ty)
        return self.assign(t, c, ty, env, s, rest, B)

    def st_AnnAssign(self, s, env, ctx, rest):
        if s.value is None:
            return rest(env)
        B = []
        c, ty = self.expr_stmt(s.value, env, B)
        ann = s.annotation
        if isinstance(s.target, ast.Name) and s.target.id in self.spec.params:
            ann = self.spec.params[s.target.id]
        ty = unify(ty, parse_type(ann, self.spec.aliases, s), s)
        self.check_alias_copy(s, s.target, s.value, ty)
        return self.assign(s.target, c, ty, env, s, rest, B)

    def st_AugAssign(self, s, env, ctx, rest):
        if not isinstance(s.target, ast.Name):
            fail(s, "augmented assignment to something that is not a local")
        B = []
        load = ast.Name(id=s.target.id, ctx=ast.Load(), lineno=s.lineno)
        c, ty = self.expr_stmt(ast.BinOp(left=load, op=s.op, right=s.value, lineno=s.lineno), env, B)
        if s.target.id in self.mutated:
            fail(s, "augmented assignment to a mutated list")
        return self.assign(s.target, c, ty, env, s, rest, B)

    def st_Expr(self, s, env, ctx, rest):
        v = s.value
        if isinstance(v, ast.Constant) and isinstance(v.value, str):
            return rest(env)
        if isinstance(v, ast.Yield) and self.generator and v.value is not None:
            B = []        # a generator is the list of what it yields
            c, ty = self.expr_stmt(v.value, env, B)
            env = env.copy()
            env.vars["t2out"] = unify(env.vars["t2out"], TList(ty), s)
            self.ret_ty = unify(self.ret_ty, env.vars["t2out"], s)
            return wrap(B + [("t2out", f"(t2out ++ [{c}])", False)], rest(env))
        if isinstance(v, ast.YieldFrom) and self.generator:
            B = []
            c, ty = self.expr_stmt(v.value, env, B)
            env = env.copy()
            env.vars["t2out"] = unify(env.vars["t2out"], ty, s)
            self.ret_ty = unify(self.ret_ty, env.vars["t2out"], s)
            return wrap(B + [("t2out", f"(t2out ++ {c})", False)], rest(env))
        if not (isinstance(v, ast.Call) and len(v.args) == 1 and not v.keywords):
            fail(s, "expression statement outside the subset")
        f = v.func
        kind = base = None
        if isinstance(f, ast.Name) and f.id in self.alias:
            kind, base = self.alias[f.id]
            if not env.valid.get(f.id):
                fail(s, f"{f.id} may denote a list that is no longer {base}")
        elif isinstance(f, ast.Attribute) and f.attr == "append" and isinstance(f.value, ast.Name):
            kind, base = "append", f.value.id
        elif (isinstance(f, ast.Attribute) and f.attr == "append" and isinstance(f.value, ast.Subscript)
              and isinstance(f.value.value, ast.Name) and not isinstance(f.value.slice, ast.Slice)):
            # xs[i].append(v): functional update of the nested list (inner lists are never shared: fresh_elem)
            kind, base = "append_at", f.value.value.id
        if kind not in ("append", "append_last", "append_at"):
            fail(s, "expression statement outside the subset")
        if base not in env.vars or env.vars[base] is POISON:
            fail(s, f"append to unknown list {base}")
        B = []
        c, ty = self.expr_stmt(v.args[0], env, B)
        self.fresh_elem(v.args[0], ty)
        env = env.copy()
        b = mangle(base)
        if kind == "append":
            env.vars[base] = unify(env.vars[base], TList(ty), s)
            for a, (k2, b2) in self.alias.items():      # x[-1] is now another list
                if b2 == base and k2 == "append_last":
                    env.valid[a] = False
            return wrap(B + [(b, f"({b} ++ [{c}])", False)], rest(env))
        env.vars[base] = unify(env.vars[base], TList(TList(ty)), s)
        if kind == "append_at":
            idx = f.value.slice
            if (isinstance(idx, ast.UnaryOp) and isinstance(idx.op, ast.USub) and isinstance(idx.operand, ast.Constant)
                    and idx.operand.value == 1):
                return wrap(B + [(b, f"py_append_last {b} {c}", True)], rest(env))
            Bi = []
            i, ti = self.ex(idx, env, Bi)
            unify(ti, INT, s)
            if Bi or any(isinstance(n, ast.Name) and n.id == base for n in ast.walk(idx)):
                fail(s, "index of the nested append is not a plain value")
            return wrap(B + [(b, f"py_append_at {b} {i} {c}", True)], rest(env))
        return wrap(B + [(b, f"py_append_last {b} {c}", True)], rest(env))

    def st_Pass(self, s, env, ctx, rest):
        return rest(env)

    def st_Return(self, s, env, ctx, rest):
        if ctx.ret is None:
            fail(s, "return here")
        if s.value is None and self.generator:
            return ctx.ret("t2out")
        if s.value is None:
            fail(s, "return without a value")
        if isinstance(s.value, ast.Name) and s.value.id == "NotImplemented" and self.node.name.startswith("__"):
            return "Crash K_TypeError", True      # a binary dunder answering NotImplemented: the operator raises
        B = []
        if self.declared_ret is not None:
            self.popped = []
            c, ty = self.ex_as(s.value, env, B, self.declared_ret)
            self.popped = None
        else:
            c, ty = self.expr_stmt(s.value, env, B)
        self.ret_ty = unify(self.ret_ty, ty, s)
        return wrap(B, ctx.ret(c))

    def ex_as(self, node, env, B, want):
        """expression at a declared type: a value where Optional is declared becomes `Some v`"""
        want = resolve(want)
        if isinstance(node, (ast.Tuple, ast.List)) and not isinstance(want, TVar) and want[0] == "list":
            parts = [self.ex_as(e, env, B, want[1]) for e in node.elts]
            et = want[1]
            for _, t in parts:
                et = unify(et, t, node)
            return "[" + "; ".join(c for c, _ in parts) + "]", TList(et)
        if isinstance(node, ast.Tuple) and not isinstance(want, TVar) and want[0] == "tuple" and len(want[1]) == len(node.elts):
            parts = [self.ex_as(e, env, B, w) for e, w in zip(node.elts, want[1])]
            return "(" + ", ".join(c for c, _ in parts) + ")", ("tuple", tuple(t for _, t in parts))
        c, t = self.ex(node, env, B)
        rt = resolve(t)
        inner = want[1] if (not isinstance(want, TVar) and want[0] == "opt") else want
        if resolve(inner) == FLOAT and rt == INT:
            c, t, rt = f"(inject_Z {c})", FLOAT, FLOAT
        if not isinstance(want, TVar) and want[0] == "opt" and rt != NONE and (isinstance(rt, TVar) or rt[0] != "opt"):
            return f"(Some {c})", ("opt", unify(t, want[1], node))
        return c, t

    def st_Break(self, s, env, ctx, rest):
        if ctx.brk is None:
            fail(s, "break here")
        return ctx.brk(env)

    def st_Continue(self, s, env, ctx, rest):
        if ctx.cont is None:
            fail(s, "continue here")
        return ctx.cont(env)

    def st_Assert(self, s, env, ctx, rest):
        nar = self.narrowing(s.test, env)
        if nar is not None and nar[1] == "isnot":
            name = nar[0]
            e2 = env.copy()
            e2.vars[name] = resolve(env.vars[name])[1]
            g, tmp = gname(name), self.fresh()
            return (f"match {g} with\n| Some {tmp} => let {g} := {tmp} in\n{lift(rest(e2))}\n"
                    f"| None => Crash K_AssertionError\nend"), True
        B = []
        c = self.truth_of(s.test, env, B)
        return wrap(B, (f"if {c} then\n{lift(rest(env))}\nelse Crash K_AssertionError", True))

    def st_Raise(self, s, env, ctx, rest):
        e = s.exc
        name = e.func.id if isinstance(e, ast.Call) and isinstance(e.func, ast.Name) else (e.id if isinstance(e, ast.Name) else None)
        if isinstance(e, ast.Call) and not all(isinstance(a, (ast.Constant, ast.JoinedStr)) for a in e.args):
            fail(s, "exception argument is not a plain message")
        if name in CRASH:
            return f"Crash {CRASH[name]}", True
        if name in DOC:
            return f"Doc {DOC[name]}", True
        fail(s, "raise of an unknown exception class")

    def narrowing(self, test, env):
        """-> (name, arm_if_some_is_body) for `x is None`, `x is not None`, `x` with x optional"""
        def opt(n):
            t = env.vars.get(self.key_of(n))
            return t is not None and t is not POISON and not isinstance(resolve(t), TVar) and resolve(t)[0] == "opt"
        if (isinstance(test, ast.Compare) and len(test.ops) == 1 and isinstance(test.ops[0], (ast.Is, ast.IsNot))
                and isinstance(test.comparators[0], ast.Constant) and test.comparators[0].value is None and opt(test.left)):
            return self.key_of(test.left), ("isnot" if isinstance(test.ops[0], ast.IsNot) else "is")
        if opt(test):
            return self.key_of(test), "truthy"
        if isinstance(test, ast.UnaryOp) and isinstance(test.op, ast.Not) and opt(test.operand):
            return self.key_of(test.operand), "falsy"
        return None

    def st_If(self, s, env, ctx, rest):
        if isinstance(s.test, ast.Call) and isinstance(s.test.func, ast.Name) and s.test.func.id == "isinstance":
            c, _ = self.bi_isinstance(s.test, env, [])    # decided by the declared type: only the live arm exists
            return self.blk(s.body if c == "true" else s.orelse, env, ctx, rest)
        exits = may_exit(s.body) or may_exit(s.orelse)
        if exits:
            return self.branches(s, env, lambda stmts, e: self.blk(stmts, e, ctx, rest))
        av = self.assigned(s.body + s.orelse)
        keep = [v for v in av if (v in env.vars and env.vars[v] is not POISON)
                or (definitely_assigns(s.body, v) and definitely_assigns(s.orelse, v))]
        joined, outs = {}, []

        def tail(e):
            for v in keep:
                t = e.vars.get(v)
                if t is None or t is POISON:
                    fail(s, f"{v} is not assigned on every path")
                joined[v] = unify(joined.get(v), t, s)
            outs.append(e)
            return tup([mangle(v) for v in keep]), False
        code, r = self.branches(s, env, lambda stmts, e: self.blk(stmts, e, ctx, tail))
        env2 = env.copy()
        for v in av:
            env2.vars[v] = joined[v] if v in keep else POISON
        for a in self.alias:
            env2.valid[a] = all(o.valid.get(a, False) for o in outs)
        p = pat([mangle(v) for v in keep])
        return wrap([(p, code, r)], rest(env2))

    def branches(self, s, env, go):
        """the if/else skeleton; go(stmts, env) translates one arm to (code, is_res)"""
        t = s.test
        if (isinstance(t, ast.BoolOp) and isinstance(t.op, ast.Or) and len(t.values) >= 2
                and (self.narrowing(t.values[0], env) or (None, None))[1] == "is"):
            # `x is None or cond(x)`: cond is evaluated only where x is a value
            name = self.narrowing(t.values[0], env)[0]
            e_some = env.copy()
            e_some.vars[name] = resolve(env.vars[name])[1]
            g, tmp = gname(name), self.fresh()
            B = []
            restc = ast.BoolOp(op=ast.Or(), values=t.values[1:], lineno=s.lineno) if len(t.values) > 2 else t.values[1]
            c = self.truth_of(restc, e_some, B)
            if B:
                fail(s, "short-circuited operand can raise")
            none, yes, no = go(s.body, env), go(s.body, e_some), go(s.orelse, e_some)
            r = none[1] or yes[1] or no[1]
            f = (lambda x: lift(x)) if r else (lambda x: x[0])
            return (f"match {g} with\n| None =>\n{f(none)}\n| Some {tmp} => let {g} := {tmp} in\n"
                    f"if {c} then\n{f(yes)}\nelse\n{f(no)}\nend"), r
        nar = self.narrowing(s.test, env)
        if nar is None:
            B = []
            c = self.truth_of(s.test, env, B)
            a, b = go(s.body, env), go(s.orelse, env)
            r = a[1] or b[1]
            return wrap(B, (f"if {c} then\n{lift(a) if r else a[0]}\nelse\n{lift(b) if r else b[0]}", r))
        name, kind = nar
        inner = resolve(env.vars[name])[1]
        e_some = env.copy()
        e_some.vars[name] = inner
        g = gname(name)
        tmp = self.fresh()
        if kind == "is":
            some, none = go(s.orelse, e_some), go(s.body, env)
            r = some[1] or none[1]
            f = (lambda x: lift(x)) if r else (lambda x: x[0])
            return f"match {g} with\n| None =>\n{f(none)}\n| Some {tmp} => let {g} := {tmp} in\n{f(some)}\nend", r
        if kind == "isnot":
            some, none = go(s.body, e_some), go(s.orelse, env)
            r = some[1] or none[1]
            f = (lambda x: lift(x)) if r else (lambda x: x[0])
            return f"match {g} with\n| Some {tmp} => let {g} := {tmp} in\n{f(some)}\n| None =>\n{f(none)}\nend", r
        if kind == "falsy":
            yes, no1, no2 = go(s.orelse, e_some), go(s.body, env), go(s.body, env)
        else:
            yes, no1, no2 = go(s.body, e_some), go(s.orelse, env), go(s.orelse, env)
        r = yes[1] or no1[1]
        f = (lambda x: lift(x)) if r else (lambda x: x[0])
        tr = self.truth(tmp, inner, s) if resolve(inner)[0] not in ("obj", "abs") else "true"
        return (f"match {g} with\n| Some {tmp} =>\nif {tr} then let {g} := {tmp} in\n{f(yes)}\nelse\n{f(no1)}\n"
                f"| None =>\n{f(no2)}\nend"), r

    def loop_state(self, s, env, extra=()):
        av = self.assigned(s.body)
        tn = set(extra)
        sv = [v for v in av if v in env.vars and env.vars[v] is not POISON and v not in tn]
        return av, sv

    def loop(self, s, env, ctx, rest, mk, binder_env, tnames):
        """common part of for/while.  mk(kind, fun_prefix_state, body_code) -> loop expression"""
        av, sv = self.loop_state(s, env, tnames)
        names = [mangle(v) for v in sv]
        exits = has_loop_exit(s.body) or isinstance(s, ast.While)

        def same_state(e):
            for v in sv:
                t = e.vars.get(v)
                if t is None or t is POISON:
                    fail(s, f"{v} may be unbound at the end of the loop body")
                unify(t, env.vars[v], s)
            for a, ok in env.valid.items():
                if ok and not e.valid.get(a) and self.alias[a][1] in sv + list(tnames):
                    fail(s, f"{a} does not denote the same list on every iteration")
        after = env.copy()
        for v in av:
            if v not in sv:
                after.vars[v] = POISON
        for v in tnames:
            after.vars[v] = POISON
        if not exits:
            def tail(e):
                same_state(e)
                return tup(names), False
            body, r = self.blk(s.body, binder_env, Ctx(), tail)
            return wrap([(pat(names), mk("foldM" if r else "fold_left", fpat(names), body), r)], rest(after))

        def nxt(e):
            same_state(e)
            return f"LNext {tup(names)}", False

        def brk(e):
            same_state(e)
            return f"LBreak {tup(names)}", False
        inner = Ctx(ret=(lambda c: (f"LReturn {c}", False)) if ctx.ret else None, brk=brk, cont=nxt)
        body = lift(self.blk(s.body, binder_env, inner, nxt))
        c = self.fresh()
        v = self.fresh()
        arms = [rest(after)]
        if ctx.ret is not None:
            arms.append(ctx.ret(v))
        r = any(a[1] for a in arms)
        f = (lambda x: lift(x)) if r else (lambda x: x[0])
        p = pat(names)
        code = f"match {c} with\n| LNext {p} | LBreak {p} =>\n{f(arms[0])}\n"
        if ctx.ret is None:
            fail(s, "loop with exits where return cannot be expressed")
        code += f"| LReturn {v} => {f(arms[1])}\nend"
        return wrap([(c, mk("ctl", fpat(names), body), True)], (code, r))

    def st_For(self, s, env, ctx, rest):
        if s.orelse:
            fail(s, "for/else")
        B = []
        it, ity = self.seq_arg(s.iter, env, B)
        benv = env.copy()
        p = self.bind_target(s.target, self.elem_type(ity, s.iter), benv)
        tn = target_names(s.target)
        if any(v in self.mutated for v in tn):
            fail(s, "loop variable is mutated")
        _, sv = self.loop_state(s, env, tn)
        init = tup([mangle(v) for v in sv])

        def mk(kind, sp, body):
            fn = {"fold_left": "fold_left", "foldM": "foldM", "ctl": "for_ctl"}[kind]
            return f"{fn} (fun {sp} {fpat(p)} =>\n{body}) {it} {init}"
        return wrap(B, self.loop(s, env, ctx, rest, mk, benv, tn))

    def st_While(self, s, env, ctx, rest):
        if s.orelse:
            fail(s, "while/else")
        self.fuel = True
        _, sv = self.loop_state(s, env)
        init = tup([mangle(v) for v in sv])
        B = []
        c = self.truth_of(s.test, env, B)
        if B:
            fail(s, "loop condition can raise")

        def mk(kind, sp, body):
            return f"while_loop fuel (fun {sp} => {c}) (fun {sp} =>\n{body}) {init}"
        return self.loop(s, env, ctx, rest, mk, env.copy(), ())

    # -------------------------------------------------------------- the function
    def translate(self):
        node, spec = self.node, self.spec
        a = node.args
        if a.vararg or a.kwarg or a.kwonlyargs or a.posonlyargs:
            fail(node, "parameter kinds outside the subset")
        for d in node.decorator_list:
            dn = d.id if isinstance(d, ast.Name) else (d.func.id if isinstance(d, ast.Call) and isinstance(d.func, ast.Name) else None)
            if dn not in ("classmethod", "staticmethod", "property", "lru_cache"):
                fail(node, "decorator outside {classmethod, staticmethod, property, lru_cache}")
        deco = {d.id for d in node.decorator_list if isinstance(d, ast.Name)}
        params = list(a.args)
        defaults = [None] * (len(params) - len(a.defaults)) + list(a.defaults)
        env = Env()
        lead, plist, ptys = [], [], []
        selfval = False
        self.cls_name = spec.path.split(".")[-2] if "." in spec.path else None
        if self.is_method and "staticmethod" not in deco:
            first = params.pop(0)
            defaults.pop(0)
            if "classmethod" in deco:
                uses = [n for n in ast.walk(node) if isinstance(n, ast.Name) and n.id == first.arg]
                calls = [n for n in ast.walk(node) if isinstance(n, ast.Call) and isinstance(n.func, ast.Name)
                         and n.func.id == first.arg]
                if uses and (first.arg != "cls" or len(uses) != len(calls) or self.cls_name not in spec.ctors):
                    fail(node, "cls is used other than as the declared constructor")
            elif spec.self_type:
                env.vars[first.arg] = parse_type(spec.self_type, spec.aliases, node)
                plist.append((mangle(first.arg), env.vars[first.arg]))
                selfval = True
            else:
                for attr, ts in spec.self_fields.items():
                    lead.append(("self_" + attr, parse_type(ts, spec.aliases, node)))
                    env.vars["self." + attr] = lead[-1][1]
                for n in ast.walk(node):
                    if isinstance(n, ast.Name) and n.id == first.arg and first.arg != "self":
                        fail(node, "receiver not called self")
                uses = [n for n in ast.walk(node) if isinstance(n, ast.Name) and n.id == "self"]
                attrs = [n for n in ast.walk(node) if isinstance(n, ast.Attribute) and isinstance(n.value, ast.Name)
                         and n.value.id == "self"]
                if len(uses) != len(attrs) or any(isinstance(n.ctx, ast.Store) for n in attrs):
                    fail(node, "self is used other than to read declared attributes")
        for key, ts in spec.obj_fields.items():
            lead.append((gname(key), parse_type(ts, spec.aliases, node)))
            env.vars[key] = lead[-1][1]
        for p, d in zip(params, defaults):
            if p.arg in spec.opaque_params:
                continue
            if p.arg in spec.params:
                t = parse_type(spec.params[p.arg], spec.aliases, node)
            elif p.annotation is not None:
                t = parse_type(p.annotation, spec.aliases, node)
                if isinstance(d, ast.Constant) and d.value is None and t[0] != "opt":
                    t = ("opt", t)
            else:
                fail(node, f"parameter {p.arg} has no declared type")
            env.vars[p.arg] = t
            plist.append((mangle(p.arg), t))
        self.prescan(node.body, [p.arg for p in a.args])
        for al in self.alias:
            env.valid[al] = False
        self.popped = None
        self.declared_ret = None
        try:
            if spec.ret:
                self.declared_ret = parse_type(spec.ret, spec.aliases, node)
            elif node.returns is not None:
                self.declared_ret = parse_type(node.returns, spec.aliases, node)
        except Untranslatable:
            self.declared_ret = None

        def end(e):
            if self.generator:
                return "t2out", False
            fail(node, "a path reaches the end of the function without return")
        self.generator = any(isinstance(n, (ast.Yield, ast.YieldFrom)) for n in ast.walk(node))
        if self.generator:
            if "t2out" in env.vars or any(isinstance(n, ast.Name) and n.id == "t2out" for n in ast.walk(node)):
                fail(node, "a local is called t2out")
            env.vars["t2out"] = TList(TVar())
            self.declared_ret = None
        code, r = self.blk(node.body, env, Ctx(ret=lambda c: (c, False)), end)
        if self.generator:
            code = "let t2out := [] in\n" + code
        rt = self.ret_ty
        if spec.ret:
            rt = unify(rt, parse_type(spec.ret, spec.aliases, node), node)
        elif node.returns is not None:
            try:
                if not self.generator:
                    rt = unify(rt, parse_type(node.returns, spec.aliases, node), node)
            except Untranslatable:
                pass
        binders = [(a2, "Type") for a2 in spec.abstract] + ([("fuel", None)] if self.fuel else []) + [(n, t) for n, t in self.extern_binders()] + lead + plist
        bs = " ".join(f"({n} : {t if isinstance(t, str) else ('nat' if t is None else gal(t, node))})" for n, t in binders)
        rg = gal(rt, node)
        text = f"Definition {spec.gname} {bs}\n  : {'res ' + rg if r else rg} :=\n{indent(code)}.\n"
        spec.sig = {"gname": spec.gname, "ptys": [t for _, t in plist], "ret": rt, "res": r, "fuel": self.fuel,
                    "method": selfval, "lead": lead, "externs": list(self.extern_sig), "prop": spec.prop}
        return text

    def extern_binders(self):
        out = []
        for k, (ptys, rty, isres) in self.extern_sig.items():
            t = " -> ".join([gal(p) for p in ptys] + [("res " + gal(rty)) if isres else gal(rty)])
            out.append((mangle(k.replace(".", "_")), t))
        return out


def indent(code):
    """re-indent by nesting of let/do/if/match lines (layout only)"""
    out = []
    for line in code.split("\n"):
        out.append("  " + line)
    return "\n".join(out)


def find(tree, path):
    body, node, is_method = tree.body, None, False
    parts = path.split(".")
    for i, p in enumerate(parts):
        node = None
        for n in body:
            if isinstance(n, (ast.ClassDef, ast.FunctionDef)) and n.name == p:
                node = n
                break
        if node is None:
            raise Untranslatable(f"{path}: not found")
        if isinstance(node, ast.ClassDef):
            body, is_method = node.body, True
    if not isinstance(node, ast.FunctionDef):
        raise Untranslatable(f"{path}: not a function")
    return node, is_method and len(parts) > 1


def translate_file(repo, specs, imports, registry=None):
    """specs: list of Fn in dependency order -> Gallina source of one generated file.
    registry: name -> signature of functions translated into files this one imports."""
    import os
    registry = dict(registry or {})
    out, errors, srcs = [], [], []
    for spec in specs:
        path = os.path.join(repo, spec.file)
        try:
            with open(path, encoding="utf-8") as f:
                tree = ast.parse(f.read(), filename=path)
            node, is_method = find(tree, spec.path)
            text = FT(spec, node, registry, is_method, repo).translate()
        except Untranslatable as e:
            errors.append(f"{spec.file}:{spec.path}: {e}")
            continue
        registry[spec.path.split(".")[-1]] = spec.sig
        if spec.file not in srcs:
            srcs.append(spec.file)
        out.append(f"(* {spec.file} {spec.path} *)\n{text}")
    if errors:
        raise Untranslatable("UNTRANSLATABLE " + "; ".join(errors))
    head = (f"(* GENERATED by tools/translate/t2.py from {', '.join(srcs)} -- do not edit *)\n"
            + "".join(f"{l}\n" for l in imports) + "\n")
    return head + "\n".join(out), registry


if __name__ == "__main__":   # try one function:  t2.py <repo> <file> <path> [param=type ...]
    import sys
    kw = dict(a.split("=", 1) for a in sys.argv[4:])
    try:
        print(translate_file(sys.argv[1], [Fn(sys.argv[2], sys.argv[3], params=kw)], [])[0])
    except Untranslatable as e:
        print(e)
