"""T1 data for C05: the control codes Text strips (rich/control.py), the whitespace class used by
str.rstrip / `\\s` (an interpreter fact, generated from the running interpreter), and the source of
the regex `Text.rstrip_end` searches with, which the rstrip_end model was written for.  Everything is located by
USE (from the public functions strip_control_codes / Text.rstrip_end), never by the name of a private global."""
import sys

_m = sys.modules.get("__main__")
_run = _m if hasattr(_m, "GENERATORS") and hasattr(_m, "generator") else __import__("run")
generator, parse, find_assign, literal = _run.generator, _run.parse, _run.find_assign, _run.literal
Untranslatable, HEADER, zlit, strlit = _run.Untranslatable, _run.HEADER, _run.zlit, _run.strlit


import ast

find_class, find_func = _run.find_class, _run.find_func


def _module_value(tree, name, what):
    """value assigned to a module-level name (the name itself is whatever the source uses)"""
    try:
        return find_assign(tree, name)
    except Untranslatable:
        raise Untranslatable(f"{what}: module-level name {name!r} has no assignment")


def _compile_literal(node, what):
    """re.compile(<literal>) with no flags -> the pattern string"""
    if not (isinstance(node, ast.Call) and isinstance(node.func, ast.Attribute) and node.func.attr == "compile"
            and isinstance(node.func.value, ast.Name) and node.func.value.id == "re"
            and len(node.args) == 1 and not node.keywords):
        raise Untranslatable(f"{what}: not re.compile(<literal>) without flags")
    pat = literal(node.args[0], what)
    if not isinstance(pat, str):
        raise Untranslatable(f"{what}: pattern is not a str literal")
    return pat


def _rstrip_end_pattern(ttree):
    """the regex Text.rstrip_end searches the plain text with -- found by USE, not by the name of the
    module-level variable: `<name>.search(...)` with <name> = re.compile(<literal>) at module level, or an
    inline re.search(<literal>, ...)"""
    fn = find_func(find_class(ttree, "Text").body, "rstrip_end")
    found = []
    for node in ast.walk(fn):
        if isinstance(node, ast.Call) and isinstance(node.func, ast.Attribute) and node.func.attr == "search":
            recv = node.func.value
            if isinstance(recv, ast.Name) and recv.id == "re":
                if not node.args or len(node.args) > 2 or node.keywords:
                    raise Untranslatable("rstrip_end: re.search with flags")
                pat = literal(node.args[0], "rstrip_end re.search pattern")
                if not isinstance(pat, str):
                    raise Untranslatable("rstrip_end: pattern is not a str literal")
                found.append(pat)
            elif isinstance(recv, ast.Name):
                found.append(_compile_literal(_module_value(ttree, recv.id, "rstrip_end regex"), "rstrip_end regex"))
            else:
                raise Untranslatable("rstrip_end: .search on something that is not a plain name")
    if len(found) != 1:
        raise Untranslatable(f"rstrip_end: expected exactly one regex search, found {len(found)}")
    return found[0]


def _strip_codes(ctree):
    """the code points strip_control_codes() removes -- followed from the public function: the table handed to
    str.translate (a parameter default or a module-level name), built as {cp: None for cp in <list>} or a dict literal"""
    fn = find_func(ctree.body, "strip_control_codes")
    tables = [n.args[0] for n in ast.walk(fn)
              if isinstance(n, ast.Call) and isinstance(n.func, ast.Attribute) and n.func.attr == "translate" and len(n.args) == 1]
    if len(tables) != 1:
        raise Untranslatable("strip_control_codes: expected exactly one .translate(table) call")
    node = tables[0]
    for _ in range(4):          # parameter -> default -> module-level name -> value
        if not isinstance(node, ast.Name):
            break
        params = fn.args.args + fn.args.kwonlyargs
        names = [a.arg for a in params]
        if node.id in names:
            pos = [a.arg for a in fn.args.args]
            if node.id in pos:
                i = pos.index(node.id) - (len(pos) - len(fn.args.defaults))
                if i < 0:
                    raise Untranslatable("strip_control_codes: translate table parameter has no default")
                node = fn.args.defaults[i]
            else:
                node = fn.args.kw_defaults[[a.arg for a in fn.args.kwonlyargs].index(node.id)]
                if node is None:
                    raise Untranslatable("strip_control_codes: translate table parameter has no default")
        else:
            node = _module_value(ctree, node.id, "strip_control_codes table")
    if isinstance(node, ast.DictComp):
        if not (len(node.generators) == 1 and not node.generators[0].ifs and isinstance(node.key, ast.Name)
                and isinstance(node.generators[0].target, ast.Name) and node.key.id == node.generators[0].target.id
                and isinstance(node.value, ast.Constant) and node.value.value is None):
            raise Untranslatable("strip_control_codes: table is not {cp: None for cp in <codes>}")
        it = node.generators[0].iter
        if isinstance(it, ast.Name):
            it = _module_value(ctree, it.id, "strip_control_codes codes")
        codes = literal(it, "strip_control_codes codes")
    elif isinstance(node, ast.Dict):
        d = literal(node, "strip_control_codes table")
        if any(v is not None for v in d.values()):
            raise Untranslatable("strip_control_codes: table maps to something other than None")
        codes = list(d.keys())
    else:
        raise Untranslatable("strip_control_codes: translate table is neither a dict comprehension nor a dict literal")
    codes = list(codes)
    if not all(isinstance(c, int) and not isinstance(c, bool) for c in codes):
        raise Untranslatable("strip_control_codes: codes are not ints")
    return codes


@generator("ControlCodes.v")
def gen_control_codes(repo):
    ctree, _ = parse(repo, "rich/control.py")
    codes = _strip_codes(ctree)
    ttree, _ = parse(repo, "rich/text.py")
    pat = _rstrip_end_pattern(ttree)
    ranges = []
    for cp in range(0x110000):
        if chr(cp).isspace():
            if ranges and ranges[-1][1] == cp - 1:
                ranges[-1][1] = cp
            else:
                ranges.append([cp, cp])
    out = HEADER
    out += "Definition STRIP_CONTROL_CODES : list Z :=\n  [" + "; ".join(zlit(c) for c in codes) + "].\n\n"
    out += "(* source of the regex Text.rstrip_end searches with (rich.text._re_whitespace in 9.10.0) *)\nDefinition RE_WHITESPACE_src : list Z := " + strlit(pat) + ".\n\n"
    out += "(* str.isspace() of the running interpreter, inclusive ranges *)\nDefinition TEXT_SPACE_RANGES : list (Z * Z) :=\n  ["
    out += "; ".join(f"({a}, {b})" for a, b in ranges) + "].\n"
    return out
