"""T1 data for C05: the control codes Text strips (rich/control.py), the whitespace class used by
str.rstrip / `\\s` (an interpreter fact, generated from the running interpreter), and the source of
the `_re_whitespace` pattern the rstrip_end model was written for."""
import sys

_m = sys.modules.get("__main__")
_run = _m if hasattr(_m, "GENERATORS") and hasattr(_m, "generator") else __import__("run")
generator, parse, find_assign, literal = _run.generator, _run.parse, _run.find_assign, _run.literal
Untranslatable, HEADER, zlit, strlit = _run.Untranslatable, _run.HEADER, _run.zlit, _run.strlit


@generator("ControlCodes.v")
def gen_control_codes(repo):
    tree, _ = parse(repo, "rich/control.py")
    codes = literal(find_assign(tree, "STRIP_CONTROL_CODES"), "STRIP_CONTROL_CODES")
    if not (isinstance(codes, list) and all(isinstance(c, int) and not isinstance(c, bool) for c in codes)):
        raise Untranslatable("STRIP_CONTROL_CODES is not a list of ints")
    ttree, _ = parse(repo, "rich/text.py")
    call = find_assign(ttree, "_re_whitespace")
    try:
        pat = literal(call.args[0], "_re_whitespace pattern")
        assert call.func.attr == "compile" and len(call.args) == 1 and not call.keywords
    except Untranslatable:
        raise
    except Exception:
        raise Untranslatable("_re_whitespace is not re.compile(<literal>)")
    ranges = []
    for cp in range(0x110000):
        if chr(cp).isspace():
            if ranges and ranges[-1][1] == cp - 1:
                ranges[-1][1] = cp
            else:
                ranges.append([cp, cp])
    out = HEADER
    out += "Definition STRIP_CONTROL_CODES : list Z :=\n  [" + "; ".join(zlit(c) for c in codes) + "].\n\n"
    out += "(* source of rich.text._re_whitespace *)\nDefinition RE_WHITESPACE_src : list Z := " + strlit(pat) + ".\n\n"
    out += "(* str.isspace() of the running interpreter, inclusive ranges *)\nDefinition TEXT_SPACE_RANGES : list (Z * Z) :=\n  ["
    out += "; ".join(f"({a}, {b})" for a, b in ranges) + "].\n"
    return out
