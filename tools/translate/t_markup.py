"""C04 (T1): the two regex source strings of rich/markup.py and STRIP_CONTROL_CODES.

The hand-written scanners of coq/model/Markup.v were written for these exact pattern strings;
coq/proofs/MarkupP.v pins them with `reflexivity`, so an edited regex breaks a proof obligation
(and sends the check to the dense scanner-vs-`re` comparison)."""
import ast, sys

# run.py is normally executed as __main__: register with *that* module's GENERATORS, not a second copy
_m = sys.modules.get("__main__")
_run = _m if hasattr(_m, "GENERATORS") and hasattr(_m, "generator") else __import__("run")
generator, parse, find_assign, find_func = _run.generator, _run.parse, _run.find_assign, _run.find_func
literal, strlit, zlit, HEADER, Untranslatable = _run.literal, _run.strlit, _run.zlit, _run.HEADER, _run.Untranslatable


def _compile_call(node, what):
    """node must be  re.compile(<str literal>[, re.FLAG | ...])  -> (pattern, [flag names])"""
    if not (isinstance(node, ast.Call) and isinstance(node.func, ast.Attribute) and node.func.attr == "compile"
            and isinstance(node.func.value, ast.Name) and node.func.value.id == "re"):
        raise Untranslatable(f"{what}: not a re.compile(...) call")
    if not node.args or node.keywords:
        raise Untranslatable(f"{what}: unexpected arguments of re.compile")
    pat = literal(node.args[0], what)
    if not isinstance(pat, str):
        raise Untranslatable(f"{what}: pattern is not a str literal")
    flags = []
    if len(node.args) > 2:
        raise Untranslatable(f"{what}: too many arguments")
    if len(node.args) == 2:
        def walk(n):
            if isinstance(n, ast.BinOp) and isinstance(n.op, ast.BitOr):
                walk(n.left)
                walk(n.right)
            elif isinstance(n, ast.Attribute) and isinstance(n.value, ast.Name) and n.value.id == "re":
                flags.append(n.attr)
            else:
                raise Untranslatable(f"{what}: flags expression not understood")
        walk(node.args[1])
    return pat, sorted(flags)


@generator("MarkupRegex.v")
def gen_markup_regex(repo):
    tree, _ = parse(repo, "rich/markup.py")
    tags_pat, tags_flags = _compile_call(find_assign(tree, "RE_TAGS"), "RE_TAGS")
    esc = find_func(tree.body, "escape")
    # def escape(markup, _escape=re.compile(r"...").sub)
    args = esc.args
    names = [a.arg for a in args.args]
    if names != ["markup", "_escape"] or len(args.defaults) != 1:
        raise Untranslatable("escape: signature changed")
    d = args.defaults[0]
    if not (isinstance(d, ast.Attribute) and d.attr == "sub"):
        raise Untranslatable("escape: default of _escape is not <compiled>.sub")
    esc_pat, esc_flags = _compile_call(d.value, "escape pattern")
    # the replacement template  f"{backslashes}{backslashes}\\{text}"
    tmpl = None
    for node in ast.walk(esc):
        if isinstance(node, ast.FunctionDef) and node.name == "escape_backslashes":
            for st in node.body:
                if isinstance(st, ast.Return) and isinstance(st.value, ast.JoinedStr):
                    parts = []
                    for v in st.value.values:
                        if isinstance(v, ast.Constant):
                            parts.append(v.value)
                        elif isinstance(v, ast.FormattedValue) and isinstance(v.value, ast.Name) \
                                and v.conversion == -1 and v.format_spec is None:
                            parts.append("{" + v.value.id + "}")
                        else:
                            raise Untranslatable("escape: replacement template not understood")
                    tmpl = "".join(parts)
    if tmpl is None:
        raise Untranslatable("escape: replacement template not found")
    ctree, _ = parse(repo, "rich/control.py")
    codes = literal(find_assign(ctree, "STRIP_CONTROL_CODES"), "STRIP_CONTROL_CODES")
    if not (isinstance(codes, list) and all(isinstance(c, int) for c in codes)):
        raise Untranslatable("STRIP_CONTROL_CODES is not a list of ints")
    out = HEADER
    out += "(* rich/markup.py: pattern source and flags of RE_TAGS (code points) *)\n"
    out += "Definition RE_TAGS_src : list Z := %s.\n" % strlit(tags_pat)
    out += "Definition RE_TAGS_flags : list (list Z) := [%s].\n" % "; ".join(strlit(f) for f in tags_flags)
    out += "(* rich/markup.py: pattern source and flags of escape()'s _escape default *)\n"
    out += "Definition ESCAPE_src : list Z := %s.\n" % strlit(esc_pat)
    out += "Definition ESCAPE_flags : list (list Z) := [%s].\n" % "; ".join(strlit(f) for f in esc_flags)
    out += "(* replacement template of escape_backslashes *)\n"
    out += "Definition ESCAPE_template : list Z := %s.\n" % strlit(tmpl)
    out += "(* rich/control.py *)\n"
    out += "Definition STRIP_CONTROL_CODES : list Z := [%s].\n" % "; ".join(zlit(c) for c in codes)
    return out
