"""Tie 1 for the decode layer (C19): rich/ansi.py and rich/file_proxy.py.

  AnsiRegex.v       sources of re_ansi / re_csi (pinned by `reflexivity` in proofs/AnsiDecodeP.v),
                    STRIP_CONTROL_CODES (what Text.append removes), and three facts about the running
                    interpreter that decode_line depends on: the code points str.isdigit accepts, the
                    str.splitlines boundaries, and which of the isdigit characters int() accepts.
  SgrMap.v          SGR_STYLE_MAP (code -> style definition string).
  FileProxyFacts.v  T3: for the console.print call in FileProxy.write and in FileProxy.flush --
                    is the printed object the output of AnsiDecoder.decode_line, and which of
                    markup / emoji / highlight are passed (and with which constant).
rich is never imported."""
import ast, sys

_m = sys.modules.get("__main__")
_run = _m if hasattr(_m, "GENERATORS") and hasattr(_m, "generator") else __import__("run")
generator, parse, find_assign, find_class, find_func = (_run.generator, _run.parse, _run.find_assign,
                                                        _run.find_class, _run.find_func)
literal, Untranslatable, HEADER, zlit, strlit = _run.literal, _run.Untranslatable, _run.HEADER, _run.zlit, _run.strlit


def _ranges(pred):
    out, lo = [], None
    for c in range(0x110000 + 1):
        ok = c < 0x110000 and pred(chr(c))
        if ok and lo is None:
            lo = c
        if not ok and lo is not None:
            out.append((lo, c - 1))
            lo = None
    return out


def _re_source(tree, name):
    node = find_assign(tree, name)
    if not (isinstance(node, ast.Call) and isinstance(node.func, ast.Attribute) and node.func.attr == "compile"
            and isinstance(node.func.value, ast.Name) and node.func.value.id == "re"):
        raise Untranslatable(f"{name} is not re.compile(...)")
    if len(node.args) != 1 or node.keywords:
        raise Untranslatable(f"{name}: re.compile with flags or extra arguments")
    src = literal(node.args[0], name)
    if not isinstance(src, str):
        raise Untranslatable(f"{name}: pattern is not a str literal")
    return src


@generator("AnsiRegex.v")
def gen_ansi_regex(repo):
    tree, _ = parse(repo, "rich/ansi.py")
    out = [HEADER]
    out.append("Definition RE_ANSI_src : list Z :=\n  " + strlit(_re_source(tree, "re_ansi")) + ".\n")
    out.append("Definition RE_CSI_src : list Z :=\n  " + strlit(_re_source(tree, "re_csi")) + ".\n")
    ctree, _ = parse(repo, "rich/control.py")
    codes = literal(find_assign(ctree, "STRIP_CONTROL_CODES"), "STRIP_CONTROL_CODES")
    if not (isinstance(codes, list) and all(type(c) is int for c in codes)):
        raise Untranslatable("STRIP_CONTROL_CODES is not a list of ints")
    out.append("(* rich.control.STRIP_CONTROL_CODES: removed by Text.append *)\n"
               "Definition DEC_STRIP_CODES : list Z := [" + "; ".join(map(str, codes)) + "].\n")
    out.append("(* facts about the running interpreter, not about rich *)\n")
    dig = _ranges(lambda ch: ch.isdigit())
    out.append("(* str.isdigit, inclusive ranges *)\nDefinition ISDIGIT_RANGES : list (Z * Z) :=\n  ["
               + "; ".join(f"({a}, {b})" for a, b in dig) + "].\n")
    # int() accepts exactly the decimal (Nd) subset of them
    for a, b in dig:
        for c in range(a, b + 1):
            try:
                int(chr(c))
                ok = True
            except ValueError:
                ok = False
            if ok != chr(c).isdecimal():
                raise Untranslatable(f"int() and str.isdecimal disagree on U+{c:04X}")
    bounds = [c for c in range(0x110000) if c != 13 and c != 10 and len(("a" + chr(c) + "b").splitlines()) == 2]
    if "a\rb".splitlines() != ["a", "b"] or "a\nb".splitlines() != ["a", "b"] or "a\r\nb".splitlines() != ["a", "b"] \
            or "a\n\rb".splitlines() != ["a", "", "b"] or "a\n".splitlines() != ["a"] or "".splitlines() != []:
        raise Untranslatable("str.splitlines does not behave as modelled")
    out.append("(* str.splitlines boundaries other than \\n, \\r and \\r\\n *)\n"
               "Definition LINE_BOUNDARIES : list Z := [" + "; ".join(map(str, bounds)) + "].\n")
    return "\n".join(out)


@generator("SgrMap.v")
def gen_sgr_map(repo):
    tree, _ = parse(repo, "rich/ansi.py")
    table = literal(find_assign(tree, "SGR_STYLE_MAP"), "SGR_STYLE_MAP")
    if not (isinstance(table, dict) and all(type(k) is int and isinstance(v, str) for k, v in table.items())):
        raise Untranslatable("SGR_STYLE_MAP is not a dict int -> str")
    rows = ";\n   ".join(f"({zlit(k)}, {strlit(v)})" for k, v in table.items())
    return HEADER + "(* rich.ansi.SGR_STYLE_MAP: SGR code -> style definition *)\n" \
        "Definition SGR_STYLE_MAP : list (Z * list Z) :=\n  [" + rows + "].\n"


# ------------------------------------------------------------------ T3: FileProxy call sites
KW = ("markup", "emoji", "highlight")


def _is_self_attr(node, suffix):
    return (isinstance(node, ast.Attribute) and isinstance(node.value, ast.Name) and node.value.id == "self"
            and node.attr.endswith(suffix))


def _is_decode_line_call(node):
    return (isinstance(node, ast.Call) and isinstance(node.func, ast.Attribute) and node.func.attr == "decode_line"
            and _is_self_attr(node.func.value, "__ansi_decoder") and len(node.args) == 1 and not node.keywords)


def _decoded_expr(node):
    """True: the expression is decode_line(x) or Text("\\n").join(decode_line(l) for l in lines);
    False: it is "".join(buffer) (a plain str); otherwise untranslatable."""
    if _is_decode_line_call(node):
        return True
    if (isinstance(node, ast.Call) and isinstance(node.func, ast.Attribute) and node.func.attr == "join"
            and len(node.args) == 1 and not node.keywords):
        recv, arg = node.func.value, node.args[0]
        if (isinstance(recv, ast.Call) and isinstance(recv.func, ast.Name) and recv.func.id == "Text"
                and len(recv.args) == 1 and not recv.keywords
                and isinstance(recv.args[0], ast.Constant) and recv.args[0].value == "\n"
                and isinstance(arg, ast.GeneratorExp) and len(arg.generators) == 1
                and not arg.generators[0].ifs and _is_decode_line_call(arg.elt)
                and isinstance(arg.generators[0].iter, ast.Name) and arg.generators[0].iter.id == "lines"):
            return True
        if isinstance(recv, ast.Constant) and recv.value == "" and isinstance(arg, ast.Name) and arg.id == "buffer":
            return False
    raise Untranslatable(f"printed expression not recognised: {ast.unparse(node)[:80]}")


def _print_site(fn):
    """(decoded?, {kw: bool}) of the single console.print call of the method"""
    calls = [n for n in ast.walk(fn) if isinstance(n, ast.Call) and isinstance(n.func, ast.Attribute)
             and n.func.attr == "print"]
    if len(calls) != 1:
        raise Untranslatable(f"{fn.name}: expected exactly one .print(...) call, found {len(calls)}")
    call = calls[0]
    recv = call.func.value
    if not (_is_self_attr(recv, "__console") or (isinstance(recv, ast.Name) and recv.id == "console")):
        raise Untranslatable(f"{fn.name}: print receiver is not the console")
    if len(call.args) != 1:
        raise Untranslatable(f"{fn.name}: print with {len(call.args)} positional arguments")
    arg = call.args[0]
    if isinstance(arg, ast.Name):
        assigns = [n for n in ast.walk(fn) if isinstance(n, ast.Assign) and len(n.targets) == 1
                   and isinstance(n.targets[0], ast.Name) and n.targets[0].id == arg.id]
        if len(assigns) != 1:
            raise Untranslatable(f"{fn.name}: printed name {arg.id} is not assigned exactly once")
        arg = assigns[0].value
    decoded = _decoded_expr(arg)
    kws = {}
    for k in call.keywords:
        if k.arg not in KW:
            raise Untranslatable(f"{fn.name}: print keyword {k.arg!r} outside the model")
        if not (isinstance(k.value, ast.Constant) and type(k.value.value) is bool):
            raise Untranslatable(f"{fn.name}: print keyword {k.arg} is not a bool constant")
        kws[k.arg] = k.value.value
    return decoded, kws


def _kw_def(name, kws):
    def one(k):
        if k not in kws:
            return "None"
        return "Some true" if kws[k] else "Some false"
    return (f"(* markup, emoji, highlight; None = not passed (the console's default applies) *)\n"
            f"Definition {name} : list (option bool) := [" + "; ".join(one(k) for k in KW) + "].\n")


def _redirect_facts(repo, rel, clsname):
    """[(guard, reset) for stdout, stderr] from _enable_redirect_io / _disable_redirect_io of the class:
    guard = the enabling `if` also requires `self._restore_X is None`; reset = disable sets it back to None"""
    tree, _ = parse(repo, rel)
    cls = find_class(tree, clsname)
    en = find_func(cls.body, "_enable_redirect_io")
    dis = find_func(cls.body, "_disable_redirect_io")
    body = [n for n in en.body if not (isinstance(n, ast.Expr) and isinstance(n.value, ast.Constant))]
    if not (len(body) == 1 and isinstance(body[0], ast.If) and ast.unparse(body[0].test) == "self.console.is_terminal"
            and not body[0].orelse):
        raise Untranslatable(f"{clsname}._enable_redirect_io: not a single `if self.console.is_terminal:`")
    ifs = body[0].body
    dbody = [n for n in dis.body if not (isinstance(n, ast.Expr) and isinstance(n.value, ast.Constant))]
    out = []
    for i, x in enumerate(("stdout", "stderr")):
        if len(ifs) != 2 or len(dbody) != 2 or not isinstance(ifs[i], ast.If) or not isinstance(dbody[i], ast.If):
            raise Untranslatable(f"{clsname}: redirect methods are not two `if` statements")
        test = ast.unparse(ifs[i].test)
        if test == f"self._redirect_{x}":
            guard = False
        elif test == f"self._redirect_{x} and self._restore_{x} is None":
            guard = True
        else:
            raise Untranslatable(f"{clsname}._enable_redirect_io: test `{test}` not recognised")
        stm = [ast.unparse(n) for n in ifs[i].body]
        if ifs[i].orelse or stm != [f"self._restore_{x} = sys.{x}", f"sys.{x} = FileProxy(self.console, sys.{x})"]:
            raise Untranslatable(f"{clsname}._enable_redirect_io: body for {x} not recognised: {stm}")
        if ast.unparse(dbody[i].test) != f"self._restore_{x}" or dbody[i].orelse:
            raise Untranslatable(f"{clsname}._disable_redirect_io: test for {x} not recognised")
        stm = [ast.unparse(n) for n in dbody[i].body]
        if stm == [f"sys.{x} = self._restore_{x}", f"self._restore_{x} = None"]:
            reset = True
        elif stm == [f"sys.{x} = self._restore_{x}"]:
            reset = False
        else:
            raise Untranslatable(f"{clsname}._disable_redirect_io: body for {x} not recognised: {stm}")
        out.append((guard, reset))
    return out


@generator("FileProxyFacts.v")
def gen_file_proxy_facts(repo):
    tree, _ = parse(repo, "rich/file_proxy.py")
    cls = find_class(tree, "FileProxy")
    wd, wk = _print_site(find_func(cls.body, "write"))
    fd, fk = _print_site(find_func(cls.body, "flush"))
    b = lambda x: "true" if x else "false"
    return (HEADER.replace("From Coq Require Import ZArith List.", "From Coq Require Import ZArith List Bool.")
            + "(* T3: FileProxy.write prints the decoded lines (Text) rather than the raw string *)\n"
            + f"Definition WRITE_DECODES : bool := {b(wd)}.\n" + _kw_def("WRITE_PRINT_KW", wk)
            + "\n(* T3: FileProxy.flush prints AnsiDecoder.decode_line(pending) rather than the raw string *)\n"
            + f"Definition FLUSH_DECODES : bool := {b(fd)}.\n" + _kw_def("FLUSH_PRINT_KW", fk)
            + "\n(* T3: _enable_redirect_io / _disable_redirect_io, for stdout and stderr: (the enabling test also\n"
              "   requires `self._restore_X is None`, disabling resets `self._restore_X = None`) *)\n"
            + "".join(f"Definition {name} : list (bool * bool) := ["
                      + "; ".join(f"({b(g)}, {b(r)})" for g, r in _redirect_facts(repo, rel, cls_)) + "].\n"
                      for name, rel, cls_ in (("LIVE_REDIRECT", "rich/live.py", "Live"),
                                              ("PROGRESS_REDIRECT", "rich/progress.py", "Progress"))))
