"""Tie 1 for the decode layer (C19): rich/ansi.py and rich/file_proxy.py.

  AnsiRegex.v       sources of re_ansi / re_csi (pinned by `reflexivity` in proofs/AnsiDecodeP.v),
                    STRIP_CONTROL_CODES (what Text.append removes), and three facts about the running
                    interpreter that decode_line depends on: the code points str.isdigit accepts, the
                    str.splitlines boundaries, and which of the isdigit characters int() accepts.
  SgrMap.v          SGR_STYLE_MAP (code -> style definition string).
  FileProxyFacts.v  T3: for the console.print call in FileProxy.write and in FileProxy.flush --
                    is the printed object the output of AnsiDecoder.decode_line, and which of
                    markup / emoji / highlight are passed (and with which constant).
rich is never imported."""
import ast, sys

_m = sys.modules.get("__main__")
_run = _m if hasattr(_m, "GENERATORS") and hasattr(_m, "generator") else __import__("run")
generator, parse, find_assign, find_class, find_func = (_run.generator, _run.parse, _run.find_assign,
                                                        _run.find_class, _run.find_func)
literal, Untranslatable, HEADER, zlit, strlit = _run.literal, _run.Untranslatable, _run.HEADER, _run.zlit, _run.strlit


def _ranges(pred):
    out, lo = [], None
    for c in range(0x110000 + 1):
        ok = c < 0x110000 and pred(chr(c))
        if ok and lo is None:
            lo = c
        if not ok and lo is not None:
            out.append((lo, c - 1))
            lo = None
    return out


def _re_source(tree, name):
    node = find_assign(tree, name)
    if not (isinstance(node, ast.Call) and isinstance(node.func, ast.Attribute) and node.func.attr == "compile"
            and isinstance(node.func.value, ast.Name) and node.func.value.id == "re"):
        raise Untranslatable(f"{name} is not re.compile(...)")
    if len(node.args) != 1 or node.keywords:
        raise Untranslatable(f"{name}: re.compile with flags or extra arguments")
    src = literal(node.args[0], name)
    if not isinstance(src, str):
        raise Untranslatable(f"{name}: pattern is not a str literal")
    return src


@generator("AnsiRegex.v")
def gen_ansi_regex(repo):
    tree, _ = parse(repo, "rich/ansi.py")
    out = [HEADER]
    out.append("Definition RE_ANSI_src : list Z :=\n  " + strlit(_re_source(tree, "re_ansi")) + ".\n")
    out.append("Definition RE_CSI_src : list Z :=\n  " + strlit(_re_source(tree, "re_csi")) + ".\n")
    ctree, _ = parse(repo, "rich/control.py")
    codes = literal(find_assign(ctree, "STRIP_CONTROL_CODES"), "STRIP_CONTROL_CODES")
    if not (isinstance(codes, list) and all(type(c) is int for c in codes)):
        raise Untranslatable("STRIP_CONTROL_CODES is not a list of ints")
    out.append("(* rich.control.STRIP_CONTROL_CODES: removed by Text.append *)\n"
               "Definition DEC_STRIP_CODES : list Z := [" + "; ".join(map(str, codes)) + "].\n")
    out.append("(* facts about the running interpreter, not about rich *)\n")
    dig = _ranges(lambda ch: ch.isdigit())
    out.append("(* str.isdigit, inclusive ranges *)\nDefinition ISDIGIT_RANGES : list (Z * Z) :=\n  ["
               + "; ".join(f"({a}, {b})" for a, b in dig) + "].\n")
    # int() accepts exactly the decimal (Nd) subset of them
    for a, b in dig:
        for c in range(a, b + 1):
            try:
                int(chr(c))
                ok = True
            except ValueError:
                ok = False
            if ok != chr(c).isdecimal():
                raise Untranslatable(f"int() and str.isdecimal disagree on U+{c:04X}")
    bounds = [c for c in range(0x110000) if c != 13 and c != 10 and len(("a" + chr(c) + "b").splitlines()) == 2]
    if "a\rb".splitlines() != ["a", "b"] or "a\nb".splitlines() != ["a", "b"] or "a\r\nb".splitlines() != ["a", "b"] \
            or "a\n\rb".splitlines() != ["a", "", "b"] or "a\n".splitlines() != ["a"] or "".splitlines() != []:
        raise Untranslatable("str.splitlines does not behave as modelled")
    out.append("(* str.splitlines boundaries other than \\n, \\r and \\r\\n *)\n"
               "Definition LINE_BOUNDARIES : list Z := [" + "; ".join(map(str, bounds)) + "].\n")
    return "\n".join(out)


@generator("SgrMap.v")
def gen_sgr_map(repo):
    tree, _ = parse(repo, "rich/ansi.py")
    table = literal(find_assign(tree, "SGR_STYLE_MAP"), "SGR_STYLE_MAP")
    if not (isinstance(table, dict) and all(type(k) is int and isinstance(v, str) for k, v in table.items())):
        raise Untranslatable("SGR_STYLE_MAP is not a dict int -> str")
    rows = ";\n   ".join(f"({zlit(k)}, {strlit(v)})" for k, v in table.items())
    return HEADER + "(* rich.ansi.SGR_STYLE_MAP: SGR code -> style definition *)\n" \
        "Definition SGR_STYLE_MAP : list (Z * list Z) :=\n  [" + rows + "].\n"


# ------------------------------------------------------------------ T3: FileProxy call sites
KW = ("markup", "emoji", "highlight")


def _single_aliases(fn):
    """local names bound exactly once in the function by `name = <expr>` where <expr> only *refers* to
    something (attribute chain, call, str.join ...) -- not a literal the code goes on to mutate.  Such a
    name can be replaced by its definition: `f = obj.attr; f(x)` == `obj.attr(x)`."""
    counts, rhs = {}, {}
    for n in ast.walk(fn):
        targets = []
        if isinstance(n, ast.Assign):
            targets = n.targets
        elif isinstance(n, (ast.AnnAssign, ast.AugAssign)):
            targets = [n.target]
        elif isinstance(n, (ast.For, ast.comprehension)):
            targets = [n.target]
        elif isinstance(n, ast.withitem) and n.optional_vars is not None:
            targets = [n.optional_vars]
        for t in targets:
            for m in ast.walk(t):
                if isinstance(m, ast.Name):
                    counts[m.id] = counts.get(m.id, 0) + 1
                    if isinstance(n, ast.Assign) and len(n.targets) == 1 and m is n.targets[0]:
                        rhs[m.id] = n.value
    params = {a.arg for a in fn.args.args + fn.args.kwonlyargs}
    return {k: v for k, v in rhs.items()
            if counts.get(k) == 1 and k not in params and isinstance(v, (ast.Attribute, ast.Call, ast.Name))}


class _Subst(ast.NodeTransformer):
    def __init__(self, aliases, depth=0):
        self.aliases, self.depth = aliases, depth

    def visit_Name(self, node):
        if isinstance(node.ctx, ast.Load) and node.id in self.aliases and self.depth < 6:
            import copy
            return _Subst(self.aliases, self.depth + 1).visit(copy.deepcopy(self.aliases[node.id]))
        return node


def _resolved(fn, node):
    """source text of the expression with single-assignment local aliases replaced by their definitions"""
    import copy
    return ast.unparse(_Subst(_single_aliases(fn)).visit(copy.deepcopy(node)))


_DEC = r"self\.__ansi_decoder\.decode_line"
_BUF = r"self\.__buffer"


def _decoded_expr(src):
    """True: the printed object is the output of THIS proxy's decoder -- decode_line(x), or
    Text("\n").join of decode_line over `lines`; False: it is the raw pending str; else untranslatable."""
    import re
    if re.fullmatch(_DEC + r"\(.+\)", src) and src.count("decode_line") == 1:
        return True
    m = re.fullmatch(r"Text\('\\n'\)\.join\((.+)\)", src)
    if m:
        inner = m.group(1).strip()
        if re.fullmatch(r"[\(\[]" + _DEC + r"\((\w+)\) for (\w+) in lines[\)\]]", inner):
            g = re.fullmatch(r"[\(\[]" + _DEC + r"\((\w+)\) for (\w+) in lines[\)\]]", inner)
            if g.group(1) == g.group(2):
                return True
        if re.fullmatch(r"map\(" + _DEC + r", lines\)", inner):
            return True
    if re.fullmatch(r"''\.join\(" + _BUF + r"\)", src):
        return False
    raise Untranslatable(f"printed expression not recognised: {src[:100]}")


def _print_site(fn):
    """(decoded?, {kw: bool}) of the single console.print call of the method; local aliases resolved"""
    calls = [n for n in ast.walk(fn) if isinstance(n, ast.Call) and isinstance(n.func, ast.Attribute)
             and n.func.attr == "print"]
    if len(calls) != 1:
        raise Untranslatable(f"{fn.name}: expected exactly one .print(...) call, found {len(calls)}")
    call = calls[0]
    if _resolved(fn, call.func.value) != "self.__console":
        raise Untranslatable(f"{fn.name}: print receiver is not this proxy's console")
    if len(call.args) != 1:
        raise Untranslatable(f"{fn.name}: print with {len(call.args)} positional arguments")
    decoded = _decoded_expr(_resolved(fn, call.args[0]))
    kws = {}
    for k in call.keywords:
        if k.arg not in KW:
            raise Untranslatable(f"{fn.name}: print keyword {k.arg!r} outside the model")
        if not (isinstance(k.value, ast.Constant) and type(k.value.value) is bool):
            raise Untranslatable(f"{fn.name}: print keyword {k.arg} is not a bool constant")
        kws[k.arg] = k.value.value
    return decoded, kws


def _kw_def(name, kws):
    def one(k):
        if k not in kws:
            return "None"
        return "Some true" if kws[k] else "Some false"
    return (f"(* markup, emoji, highlight; None = not passed (the console's default applies) *)\n"
            f"Definition {name} : list (option bool) := [" + "; ".join(one(k) for k in KW) + "].\n")


def _conjuncts(test):
    if isinstance(test, ast.BoolOp) and isinstance(test.op, ast.And):
        return sorted(ast.unparse(v) for v in test.values)
    return [ast.unparse(test)]


def _redirect_facts(repo, rel, clsname):
    """[(guard, reset) for stdout, stderr] from _enable_redirect_io / _disable_redirect_io of the class:
    guard = the enabling `if` also requires `self._restore_X is None`; reset = disable sets it back to None.
    The two per-stream `if` blocks may come in either order; conjuncts of a test in either order;
    `if self._restore_X:` and `if self._restore_X is not None:` are the same test for a stream object."""
    tree, _ = parse(repo, rel)
    cls = find_class(tree, clsname)
    en = find_func(cls.body, "_enable_redirect_io")
    dis = find_func(cls.body, "_disable_redirect_io")
    body = [n for n in en.body if not (isinstance(n, ast.Expr) and isinstance(n.value, ast.Constant))
            and not isinstance(n, ast.Assign)]
    if not (len(body) == 1 and isinstance(body[0], ast.If) and _resolved(en, body[0].test) == "self.console.is_terminal"
            and not body[0].orelse):
        raise Untranslatable(f"{clsname}._enable_redirect_io: not a single `if self.console.is_terminal:`")
    ifs = [n for n in body[0].body if not isinstance(n, ast.Assign)]
    difs = [n for n in dis.body if not (isinstance(n, ast.Expr) and isinstance(n.value, ast.Constant))]
    if len(ifs) != 2 or len(difs) != 2 or not all(isinstance(n, ast.If) and not n.orelse for n in ifs + difs):
        raise Untranslatable(f"{clsname}: redirect methods are not two plain `if` statements")
    out = []
    for x in ("stdout", "stderr"):
        mine = [n for n in ifs if f"_redirect_{x}" in ast.unparse(n.test)]
        dmine = [n for n in difs if f"_restore_{x}" in ast.unparse(n.test)]
        if len(mine) != 1 or len(dmine) != 1:
            raise Untranslatable(f"{clsname}: no unique block for {x}")
        conj = _conjuncts(mine[0].test)
        if conj == [f"self._redirect_{x}"]:
            guard = False
        elif conj == sorted([f"self._redirect_{x}", f"self._restore_{x} is None"]):
            guard = True
        else:
            raise Untranslatable(f"{clsname}._enable_redirect_io: test `{ast.unparse(mine[0].test)}` not recognised")
        stm = [_resolved(en, n.value) if isinstance(n, ast.Assign) else None for n in mine[0].body]
        tg = [ast.unparse(n.targets[0]) if isinstance(n, ast.Assign) and len(n.targets) == 1 else None for n in mine[0].body]
        if tg != [f"self._restore_{x}", f"sys.{x}"] or stm != [f"sys.{x}", f"FileProxy(self.console, sys.{x})"]:
            raise Untranslatable(f"{clsname}._enable_redirect_io: body for {x} not recognised")
        if ast.unparse(dmine[0].test) not in (f"self._restore_{x}", f"self._restore_{x} is not None"):
            raise Untranslatable(f"{clsname}._disable_redirect_io: test for {x} not recognised")
        stm = [ast.unparse(n) for n in dmine[0].body]
        if stm == [f"sys.{x} = self._restore_{x}", f"self._restore_{x} = None"]:
            reset = True
        elif stm == [f"sys.{x} = self._restore_{x}"]:
            reset = False
        else:
            raise Untranslatable(f"{clsname}._disable_redirect_io: body for {x} not recognised: {stm}")
        out.append((guard, reset))
    return out


@generator("FileProxyFacts.v")
def gen_file_proxy_facts(repo):
    tree, _ = parse(repo, "rich/file_proxy.py")
    cls = find_class(tree, "FileProxy")
    wd, wk = _print_site(find_func(cls.body, "write"))
    fd, fk = _print_site(find_func(cls.body, "flush"))
    b = lambda x: "true" if x else "false"
    return (HEADER.replace("From Coq Require Import ZArith List.", "From Coq Require Import ZArith List Bool.")
            + "(* T3: FileProxy.write prints the decoded lines (Text) rather than the raw string *)\n"
            + f"Definition WRITE_DECODES : bool := {b(wd)}.\n" + _kw_def("WRITE_PRINT_KW", wk)
            + "\n(* T3: FileProxy.flush prints AnsiDecoder.decode_line(pending) rather than the raw string *)\n"
            + f"Definition FLUSH_DECODES : bool := {b(fd)}.\n" + _kw_def("FLUSH_PRINT_KW", fk)
            + "\n(* T3: _enable_redirect_io / _disable_redirect_io, for stdout and stderr: (the enabling test also\n"
              "   requires `self._restore_X is None`, disabling resets `self._restore_X = None`) *)\n"
            + "".join(f"Definition {name} : list (bool * bool) := ["
                      + "; ".join(f"({b(g)}, {b(r)})" for g, r in _redirect_facts(repo, rel, cls_)) + "].\n"
                      for name, rel, cls_ in (("LIVE_REDIRECT", "rich/live.py", "Live"),
                                              ("PROGRESS_REDIRECT", "rich/progress.py", "Progress"))))
